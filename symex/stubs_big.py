# Model of math/big.Int (non-negative integers < 2^528 as bit-vectors) and of the elliptic-curve
# objects of the Go standard library / btcec that the ECDSA glue of onflow/crypto uses.
import z3
from .core import *

W = 528
BIGMOD = z3.Function('big_mod', z3.BitVecSort(W), z3.BitVecSort(W), z3.BitVecSort(W))

P256_P = 0xffffffff00000001000000000000000000000000ffffffffffffffffffffffff
P256_N = 0xffffffff00000000ffffffffffffffffbce6faada7179e84f3b9cac2fc632551
SECP_P = 0xfffffffffffffffffffffffffffffffffffffffffffffffffffffffefffffc2f
SECP_N = 0xfffffffffffffffffffffffffffffffebaaedce6af48a03bbfd25e8cd0364141

def _tab(ex):
    return ex.pstate.setdefault('bigtab', {})

def bget(ex, p):
    """value of *big.Int at p: (val, maxbytes)"""
    if p.obj is None:
        raise GoPanic('nil-deref', 'nil *big.Int')
    return _tab(ex).get((p.obj.id, p.off), (0, 0))

def bset(ex, p, v, maxbytes):
    if p.obj is None:
        raise GoPanic('nil-deref', 'nil *big.Int')
    if isinstance(v, int):
        if v < 0:
            raise Unsupported('negative big.Int')
        maxbytes = (v.bit_length() + 7) // 8
    _tab(ex)[(p.obj.id, p.off)] = (v, maxbytes)
    if not isinstance(v, int):
        note_bound(ex, v, maxbytes)
    eff = getattr(ex, 'effects', None)
    if eff is not None and p.obj.id <= getattr(ex, 'effects_epoch', 0):
        eff.append(('big-write', 'big.Int %s that existed before the operation' % p.obj.label))

def new_big(ex, v, maxbytes=0):
    p = Ptr(ex.mem.alloc(32, True, 'big.Int'), 0)
    bset(ex, p, v, maxbytes)
    return p

def from_bytes(bs):
    """big-endian byte values -> int / BV(W)"""
    if all(isinstance(b, int) for b in bs):
        v = 0
        for b in bs:
            v = (v << 8) | b
        return v
    if not bs:
        return 0
    t = z3.Concat(*[tobv(b, 8) for b in bs]) if len(bs) > 1 else tobv(bs[0], 8)
    return simp(z3.ZeroExt(W - 8 * len(bs), t))

def note_bound(ex, T, k):
    """record the fact T < 2^(8k), which holds on this path (from the construction of T or a length fork)"""
    tab = ex.pstate.setdefault('big_bounds', {})
    old = tab.get(T.get_id())
    if old is None or k < old[1]:
        tab[T.get_id()] = (T, k)

def from_bytes_ex(ex, bs):
    """from_bytes, but big-endian bytes that are exactly the low bytes of one term T known to fit in them are
    read back as T itself (syntactic identity instead of a Concat/Extract round trip the solver has to undo)"""
    v = from_bytes(bs)
    if isinstance(v, int):
        return v
    i = 0
    while i < len(bs) and isinstance(bs[i], int) and bs[i] == 0:
        i += 1
    rest = bs[i:]
    n = len(rest)
    T = None
    for j, b in enumerate(rest):
        if isinstance(b, int) or not z3.is_app_of(b, z3.Z3_OP_EXTRACT):
            return v
        hi, lo = b.params()
        if (hi, lo) != (8 * (n - 1 - j) + 7, 8 * (n - 1 - j)):
            return v
        if T is None:
            T = b.arg(0)
        elif b.arg(0).get_id() != T.get_id():
            return v
    if T is None or T.size() != W:
        return v
    kb = ex.pstate.get('big_bounds', {}).get(T.get_id())
    if kb is not None and kb[1] <= n:
        return T
    return v

def to_byte(v, k):
    """byte k (0 = least significant) of value"""
    if isinstance(v, int):
        return (v >> (8 * k)) & 0xff
    raw = z3.Extract(8 * k + 7, 8 * k, v)
    r = simp(raw)
    # keep the syntactic form "byte k of v" unless simplification gives a constant or a plain extract: z3 pushes
    # extracts through additions, which would hide the round trip from from_bytes_ex
    if isinstance(r, int) or z3.is_app_of(r, z3.Z3_OP_EXTRACT) or r.num_args() == 0:
        return r
    return raw

def s_setint64(ex, a, i):
    bset(ex, a[0], signed(a[1], 64) if isinstance(a[1], int) else a[1], 8)
    return a[0]

def s_setuint64(ex, a, i):
    v = a[1]
    bset(ex, a[0], v if isinstance(v, int) else simp(z3.ZeroExt(W - 64, v)), 8)
    return a[0]

def s_setbytes(ex, a, i):
    bs = ex.read_bytes(a[1])
    if len(bs) * 8 > W:
        raise Unsupported('big.Int.SetBytes longer than %d bits' % W)
    bset(ex, a[0], from_bytes_ex(ex, bs), len(bs))
    return a[0]

def s_set(ex, a, i):
    v, m = bget(ex, a[1])
    bset(ex, a[0], v, m)
    return a[0]

def s_cmp(ex, a, i):
    x, _ = bget(ex, a[0]); y, _ = bget(ex, a[1])
    if isinstance(x, int) and isinstance(y, int):
        return ((x > y) - (x < y)) & mask(64)
    X, Y = tobv(x, W), tobv(y, W)
    return simp(z3.If(z3.ULT(X, Y), z3.BitVecVal(mask(64), 64), z3.If(X == Y, z3.BitVecVal(0, 64), z3.BitVecVal(1, 64))))

def s_sign(ex, a, i):
    x, _ = bget(ex, a[0])
    if isinstance(x, int):
        return int(x > 0)
    return simp(z3.If(x == 0, z3.BitVecVal(0, 64), z3.BitVecVal(1, 64)))

def s_bitlen(ex, a, i):
    x, m = bget(ex, a[0])
    if isinstance(x, int):
        return x.bit_length()
    raise Unsupported('BitLen of symbolic big.Int')

def nbytes(ex, x, m):
    """fork on the minimal byte length of x (<= m bytes)"""
    if isinstance(x, int):
        return (x.bit_length() + 7) // 8
    conds = []
    # bound knob (stated in the evidence of the checks that set it): only the listed minimal byte lengths of
    # symbolic integers are explored; the other lengths are cut by an assumption
    allowed = getattr(ex, 'big_len_set', None)      # allowed minimal byte lengths k
    for k in range(0, m + 1):
        lo = z3.BoolVal(True) if k == 0 else z3.UGE(x, z3.BitVecVal(1 << (8 * (k - 1)), W))
        hi = z3.ULT(x, z3.BitVecVal(1 << (8 * k), W))
        conds.append(z3.And(lo, hi) if (allowed is None or k in allowed) else z3.BoolVal(False))
    if allowed is not None:
        ok = [c for c in conds if not z3.is_false(c)]
        if not ex.feasible(z3.Or(ok)):
            raise PathEnd('assume_false')
        ex.add(z3.Or(ok))
    k = ex.choose(conds)
    note_bound(ex, x, k)
    return k

def s_bytes(ex, a, i):
    x, m = bget(ex, a[0])
    k = nbytes(ex, x, m)
    return ex.make_bytes([to_byte(x, k - 1 - j) for j in range(k)], 'big.Bytes')

def s_fillbytes(ex, a, i):
    x, m = bget(ex, a[0])
    buf = a[1]
    n = buf.len
    if isinstance(x, int):
        fits = x < (1 << (8 * n))
    else:
        fits = True if 8 * n >= W else z3.ULT(x, z3.BitVecVal(1 << (8 * n), W))
    if not ex.decide(fits):
        raise GoPanic('explicit', 'math/big: buffer too small to fit value', i.get('pos', ''))
    ex.write_bytes(buf, [to_byte(x, n - 1 - j) if n - 1 - j < W // 8 else 0 for j in range(n)])
    return buf

def s_add(ex, a, i):
    x, mx = bget(ex, a[1]); y, my = bget(ex, a[2])
    if isinstance(x, int) and isinstance(y, int):
        bset(ex, a[0], x + y, 0)
    else:
        r = simp(tobv(x, W) + tobv(y, W))
        mb = max(mx, my)
        # the sum usually still fits in the larger operand's byte length (e.g. (x mod (n-1)) + 1 < n): one cheap
        # query keeps the byte bound tight, which lets byte round trips be read back syntactically
        if mb >= W // 8 or not ex.must(z3.ULT(r, z3.BitVecVal(1 << (8 * mb), W))):
            mb = min(mb + 1, W // 8)
        bset(ex, a[0], r, mb)
    return a[0]

def s_sub(ex, a, i):
    x, mx = bget(ex, a[1]); y, my = bget(ex, a[2])
    if isinstance(x, int) and isinstance(y, int):
        bset(ex, a[0], x - y, 0)
    else:
        if ex.decide(z3.ULT(tobv(x, W), tobv(y, W))):
            raise Unsupported('negative big.Int result')
        bset(ex, a[0], simp(tobv(x, W) - tobv(y, W)), mx)
    return a[0]

def s_mod(ex, a, i):
    x, mx = bget(ex, a[1]); m, mm = bget(ex, a[2])
    if isinstance(x, int) and isinstance(m, int):
        if m == 0:
            raise GoPanic('explicit', 'division by zero')
        bset(ex, a[0], x % m, 0)
        return a[0]
    if not isinstance(m, int):
        raise Unsupported('big.Int.Mod with symbolic modulus')
    X = tobv(x, W); M = z3.BitVecVal(m, W)
    r = BIGMOD(X, M)
    ex.add(z3.ULT(r, M))
    ex.add(z3.Implies(z3.ULT(X, M), r == X))
    bset(ex, a[0], r, (m.bit_length() + 7) // 8)
    return a[0]

# ---- curves

class Curve:
    def __init__(self, name, p, n):
        self.name, self.p, self.n = name, p, n

def _singleton(ex, key, mk):
    t = ex.pstate.setdefault('singletons', {})
    if key not in t:
        t[key] = mk()
    return t[key]

def curve_params(ex, name):
    def mk():
        P, N = (P256_P, P256_N) if name == 'P-256' else (SECP_P, SECP_N)
        tid = 'crypto/elliptic.CurveParams'
        p = ex.new(tid, 'CurveParams:' + name)
        t = ex.prog.T(tid)
        for f in t['fields']:
            if f['name'] == 'P':
                ex._store(p.obj, f['off'], f['type'], new_big(ex, P))
            elif f['name'] == 'N':
                ex._store(p.obj, f['off'], f['type'], new_big(ex, N))
            elif f['name'] == 'BitSize':
                ex._store(p.obj, f['off'], f['type'], 256)
            elif f['name'] == 'Name':
                ex._store(p.obj, f['off'], f['type'], Str(name.encode()))
        p.obj.meta = {'curve': name}
        return p
    return _singleton(ex, 'params:' + name, mk)

def p256(ex, a, i):
    def mk():
        p = Ptr(ex.mem.alloc(8, True, 'P256curve'), 0)
        p.obj.meta = {'curve': 'P-256'}
        return Iface('verif.p256', p)
    return _singleton(ex, 'p256', mk)

def s256(ex, a, i):
    def mk():
        p = Ptr(ex.mem.alloc(8, True, 'S256curve'), 0)
        p.obj.meta = {'curve': 'secp256k1'}
        return p
    return _singleton(ex, 's256', mk)

KOB = '(*github.com/decred/dcrd/dcrec/secp256k1/v4.KoblitzCurve).'

def install(ex):
    S = ex.stubs
    B = '(*math/big.Int).'
    S[B + 'SetInt64'] = s_setint64
    S[B + 'SetUint64'] = s_setuint64
    S[B + 'SetBytes'] = s_setbytes
    S[B + 'Set'] = s_set
    S[B + 'Cmp'] = s_cmp
    S[B + 'Sign'] = s_sign
    S[B + 'BitLen'] = s_bitlen
    S[B + 'Bytes'] = s_bytes
    S[B + 'FillBytes'] = s_fillbytes
    S[B + 'Add'] = s_add
    S[B + 'Sub'] = s_sub
    S[B + 'Mod'] = s_mod
    S['crypto/elliptic.P256'] = p256
    S['github.com/btcsuite/btcd/btcec/v2.S256'] = s256
    S['github.com/decred/dcrd/dcrec/secp256k1/v4.S256'] = s256
    S[('method', 'verif.p256', 'Params')] = lambda ex, a, i: curve_params(ex, 'P-256')
    S[KOB + 'Params'] = lambda ex, a, i: curve_params(ex, 'secp256k1')

TRUSTED = ['math/big.Int: exact non-negative integers below 2^528 (SetBytes, Bytes, FillBytes, Cmp, Sign, BitLen, Add, Sub exact; Mod by a constant = uninterpreted with r < m and r = x when x < m)',
           'elliptic.P256() / btcec.S256(): singleton curve objects with the standard P, N, BitSize']
