# Contracts of the standard-library / btcec functions used by the ECDSA glue (DESIGN 6.11, 6.12).
# Elliptic-curve arithmetic is outside the claim: public-key derivation, the on-curve predicate, point
# decompression and the ECDSA relation are uninterpreted functions of exactly the integers handed to
# the library, constrained only by their documented contracts.
import z3
from .core import *
from . import stubs_big as B
from .stubs_big import W, bget, bset, new_big, from_bytes, to_byte, P256_P, P256_N, SECP_P, SECP_N

BV = z3.BitVecSort
PUBX = z3.Function('ec_pub_x', BV(8), BV(W), BV(W))
PUBY = z3.Function('ec_pub_y', BV(8), BV(W), BV(W))
ONCURVE = z3.Function('ec_on_curve', BV(8), BV(W), BV(W), z3.BoolSort())
DECOMP_OK = z3.Function('ec_x_has_point', BV(8), BV(W), z3.BoolSort())
DECOMP_Y = z3.Function('ec_decompress_y', BV(8), BV(W), BV(8), BV(W))
ECDSA_OK = z3.Function('ecdsa_relation', BV(8), BV(W), BV(W), BV(W), BV(W), BV(W), z3.BoolSort())
HKDF_ABS = z3.Function('hkdf_absorb', BV(256), BV(8), BV(256))
HKDF_OUT = z3.Function('hkdf_out', BV(256), BV(32), BV(8))

CID = {'P-256': 1, 'secp256k1': 2}
PN = {'P-256': (P256_P, P256_N), 'secp256k1': (SECP_P, SECP_N)}

def cid(name):
    return z3.BitVecVal(CID[name], 8)

def curve_name_of(ex, v):
    """curve name of an elliptic.Curve interface value / *KoblitzCurve pointer"""
    if isinstance(v, Iface):
        v = v.val
    if isinstance(v, Ptr) and v.obj is not None and v.obj.meta and 'curve' in v.obj.meta:
        return v.obj.meta['curve']
    raise Unsupported('unknown curve object')

def pub_of(ex, name, d):
    """(X, Y) of the public key of scalar d with the contract facts: reduced coordinates, on curve"""
    p, n = PN[name]
    D = tobv(d, W)
    X, Y = PUBX(cid(name), D), PUBY(cid(name), D)
    ex.add(z3.And(z3.ULT(X, z3.BitVecVal(p, W)), z3.ULT(Y, z3.BitVecVal(p, W)), ONCURVE(cid(name), X, Y)))
    note_oncurve(ex, name, X, Y)
    note_reduced(ex, X, Y)
    return X, Y

# ---- hkdf

def _chain(st, bs):
    for b in bs:
        st = HKDF_ABS(st, tobv(b, 8))
    return st

def hkdf_bytes(ex, secret, salt, info, L):
    st = z3.BitVecVal(0x4b4446, 256)
    for part in (secret, salt, info):
        st = _chain(st, part)
        st = HKDF_ABS(HKDF_ABS(st, z3.BitVecVal(len(part) & 0xff, 8)), z3.BitVecVal((len(part) >> 8) & 0xff, 8))
    st = HKDF_ABS(st, z3.BitVecVal(L & 0xff, 8))
    return [HKDF_OUT(st, z3.BitVecVal(i, 32)) for i in range(L)]

def hkdf_key(ex, a, ins):
    hfn, secret, salt, info, L = a
    L = signed(L, 64)
    out = hkdf_bytes(ex, ex.read_bytes(secret), ex.read_bytes(salt), list(info.b), L)
    ex.events.append(('hkdf', 'secret=%d salt=%d info=%d L=%d' % (secret.len, salt.len, len(info.b), L)))
    return (ex.make_bytes(out, 'hkdf'), None)

def ref_hkdf(ex, a, ins):
    secret, salt, info, L = a
    return ex.make_bytes(hkdf_bytes(ex, ex.read_bytes(secret), ex.read_bytes(salt), list(info.b), signed(L, 64)), 'refhkdf')

# ---- ecdsa

def _pk_fields(ex, pub):
    t = ex.prog.T('crypto/ecdsa.PublicKey')
    f = {x['name']: x for x in t['fields']}
    curve = ex._load(pub.obj, pub.off + f['Curve']['off'], f['Curve']['type'])
    X = ex._load(pub.obj, pub.off + f['X']['off'], f['X']['type'])
    Y = ex._load(pub.obj, pub.off + f['Y']['off'], f['Y']['type'])
    return curve, X, Y

def hash_to_z(h):
    """leftmost 256 bits of the hash as integer (both curve orders have 256 bits)"""
    return from_bytes(h[:32])

def ecdsa_sign(ex, a, ins):
    rnd, priv, h = a
    curve, X, Y = _pk_fields(ex, priv)       # PublicKey is the first field of PrivateKey
    name = curve_name_of(ex, curve)
    p, n = PN[name]
    k = ex.pstate.setdefault('ecdsa_n', 0)
    ex.pstate['ecdsa_n'] = k + 1
    r = z3.BitVec('ecdsa_r%d' % k, W); s = z3.BitVec('ecdsa_s%d' % k, W)
    N = z3.BitVecVal(n, W)
    ex.add(z3.And(r != 0, s != 0, z3.ULT(r, N), z3.ULT(s, N)))
    x, _ = bget(ex, X); y, _ = bget(ex, Y)
    z = hash_to_z(ex.read_bytes(h))
    ex.add(ECDSA_OK(cid(name), tobv(x, W), tobv(y, W), tobv(z, W), r, s))
    ex.nondets.append(('ecdsa_r', z3.Extract(255, 0, r), 256))
    ex.nondets.append(('ecdsa_s', z3.Extract(255, 0, s), 256))
    return (new_big(ex, r, 32), new_big(ex, s, 32), None)

def ecdsa_verify(ex, a, ins):
    pub, h, r, s = a
    curve, X, Y = _pk_fields(ex, pub)
    name = curve_name_of(ex, curve)
    p, n = PN[name]
    rv, _ = bget(ex, r); sv, _ = bget(ex, s)
    x, _ = bget(ex, X); y, _ = bget(ex, Y)
    N = z3.BitVecVal(n, W)
    R, S = tobv(rv, W), tobv(sv, W)
    z = hash_to_z(ex.read_bytes(h))
    return simp(z3.And(R != 0, S != 0, z3.ULT(R, N), z3.ULT(S, N), ECDSA_OK(cid(name), tobv(x, W), tobv(y, W), tobv(z, W), R, S)))

def _der_int(ex, bs, pos):
    """strict DER INTEGER at bs[pos:]: returns (ok-condition, value bytes (big-endian list), next position) or None when
    the structure bytes are not concrete / malformed on this path (then the signature is rejected)"""
    if pos + 2 > len(bs) or not isinstance(bs[pos], int) or not isinstance(bs[pos + 1], int):
        return None
    if bs[pos] != 0x02 or bs[pos + 1] >= 0x80 or bs[pos + 1] == 0:
        return None
    ln = bs[pos + 1]
    if pos + 2 + ln > len(bs):
        return None
    body = bs[pos + 2: pos + 2 + ln]
    # non-negative (top bit of the first byte clear) and minimal (no leading 00 unless the next byte has its top bit set)
    ok = tobool(int_binop('==', int_binop('&', body[0], 0x80, 8, False), 0, 8, False))
    if ln > 1:
        lead0 = tobool(int_binop('==', body[0], 0, 8, False))
        nxt = tobool(int_binop('!=', int_binop('&', body[1], 0x80, 8, False), 0, 8, False))
        ok = z3.And(ok, z3.Or(z3.Not(lead0), nxt))
    return ok, body, pos + 2 + ln

def ecdsa_verify_asn1(ex, a, ins):
    """crypto/ecdsa.VerifyASN1(pub, hash, sig): sig must be the strict DER encoding SEQUENCE { INTEGER r, INTEGER s }
    (minimal, non-negative integers, no trailing bytes); then as crypto/ecdsa.Verify. The length / tag bytes must be
    concrete on the path (they are when the signature was built by a DER builder); integer contents are symbolic."""
    pub, h, sig = a
    bs = ex.read_bytes(sig)
    if len(bs) < 8 or not isinstance(bs[0], int) or not isinstance(bs[1], int):
        if all(isinstance(b, int) for b in bs[:2]) or len(bs) < 8:
            return False
        raise Unsupported('VerifyASN1 on a signature with symbolic DER structure bytes')
    if bs[0] != 0x30 or bs[1] >= 0x80 or bs[1] != len(bs) - 2:
        return False
    r1 = _der_int(ex, bs, 2)
    if r1 is None:
        return False
    ok1, rb, pos = r1
    r2 = _der_int(ex, bs, pos)
    if r2 is None:
        return False
    ok2, sb, pos = r2
    if pos != len(bs) or len(rb) > 33 or len(sb) > 33:
        return False
    curve, X, Y = _pk_fields(ex, pub)
    name = curve_name_of(ex, curve)
    p, n = PN[name]
    x, _ = bget(ex, X); y, _ = bget(ex, Y)
    N = z3.BitVecVal(n, W)
    def val(bb):
        v = bb[0] if len(bb) == 1 else simp(z3.Concat(*[tobv(b, 8) for b in bb])) if not all(isinstance(b, int) for b in bb) else int.from_bytes(bytes(bb), 'big')
        v = tobv(v, 8 * len(bb))
        return simp(z3.ZeroExt(W - 8 * len(bb), v)) if 8 * len(bb) < W else v
    R, S = val(rb), val(sb)
    z = hash_to_z(ex.read_bytes(h))
    return simp(z3.And(ok1, ok2, R != 0, S != 0, z3.ULT(R, N), z3.ULT(S, N), ECDSA_OK(cid(name), tobv(x, W), tobv(y, W), tobv(z, W), R, S)))

# ---- ecdh (P-256 key construction / validation)

def ecdh_p256(ex, a, ins):
    def mk():
        p = Ptr(ex.mem.alloc(8, True, 'ecdhP256'), 0)
        p.obj.meta = {'curve': 'P-256'}
        return Iface('verif.ecdhcurve', p)
    return B._singleton(ex, 'ecdhp256', mk)

def ecdh_new_private(ex, a, ins):
    c, key = a
    bs = ex.read_bytes(key)
    if len(bs) != 32:
        return (NIL, B_err(ex, 'crypto/ecdh: invalid private key size'))
    d = B.from_bytes_ex(ex, bs)
    D = tobv(d, W)
    ok = z3.And(D != 0, z3.ULT(D, z3.BitVecVal(P256_N, W)))
    if not ex.decide(ok):
        return (NIL, B_err(ex, 'crypto/ecdh: invalid private key'))
    o = ex.mem.alloc(8, True, 'ecdhPriv')
    o.meta = {'ecdh_d': d}
    return (Ptr(o, 0), None)

def B_err(ex, text):
    from . import gostubs
    return gostubs._newerr(ex, '*errors.errorString', text=Str(text.encode()))

def ecdh_priv_public(ex, a, ins):
    p = a[0]
    d = p.obj.meta['ecdh_d']
    X, Y = pub_of(ex, 'P-256', d)
    o = ex.mem.alloc(8, True, 'ecdhPub')
    o.meta = {'ecdh_xy': (X, Y)}
    return Ptr(o, 0)

def ecdh_pub_bytes(ex, a, ins):
    X, Y = a[0].obj.meta['ecdh_xy']
    bs = [4] + [to_byte(X, 31 - i) for i in range(32)] + [to_byte(Y, 31 - i) for i in range(32)]
    return ex.make_bytes(bs, 'ecdhPubBytes')

def ecdh_new_public(ex, a, ins):
    c, key = a
    bs = ex.read_bytes(key)
    if len(bs) != 65:
        return (NIL, B_err(ex, 'crypto/ecdh: invalid public key'))
    if not ex.decide(int_binop('==', bs[0], 4, 8, False)):
        return (NIL, B_err(ex, 'crypto/ecdh: invalid public key'))
    X, Y = tobv(B.from_bytes_ex(ex, bs[1:33]), W), tobv(B.from_bytes_ex(ex, bs[33:]), W)
    P = z3.BitVecVal(P256_P, W)
    ok = z3.And(z3.ULT(X, P), z3.ULT(Y, P), ONCURVE(cid('P-256'), X, Y))
    note_oncurve(ex, 'P-256', X, Y)
    if not ex.decide(ok):
        return (NIL, B_err(ex, 'crypto/ecdh: invalid public key'))
    note_reduced(ex, X, Y)
    o = ex.mem.alloc(8, True, 'ecdhPub')
    o.meta = {'ecdh_xy': (X, Y)}
    return (Ptr(o, 0), None)

# ---- btcec / elliptic

def kob_scalar_base_mult(ex, a, ins):
    c, k = a
    d = B.from_bytes_ex(ex, ex.read_bytes(k))
    X, Y = pub_of(ex, 'secp256k1', d)
    return (new_big(ex, X, 32), new_big(ex, Y, 32))

def kob_is_on_curve(ex, a, ins):
    c, x, y = a
    xv, _ = bget(ex, x); yv, _ = bget(ex, y)
    note_oncurve(ex, 'secp256k1', tobv(xv, W), tobv(yv, W))
    return ONCURVE(cid('secp256k1'), tobv(xv, W), tobv(yv, W))

def _decompress(ex, name, bs):
    """contract of point decompression: (ok, X, Y)"""
    p, n = PN[name]
    X = tobv(B.from_bytes_ex(ex, bs[1:33]), W)
    pre = bs[0]
    okp = bor(int_binop('==', pre, 2, 8, False), int_binop('==', pre, 3, 8, False))
    ok = z3.And(tobool(okp), z3.ULT(X, z3.BitVecVal(p, W)), DECOMP_OK(cid(name), X))
    Y = DECOMP_Y(cid(name), X, tobv(pre, 8))
    ex.pstate.setdefault('decomp_terms', []).append((name, X, tobv(pre, 8)))
    # field fact (no point of order 2, p odd): a reduced on-curve point (X0, Y0) is what decompression of
    # (parity(Y0), X0) returns. Instantiated for the on-curve terms that occur on this path.
    P = z3.BitVecVal(p, W)
    for (nm, X0, Y0) in ex.pstate.get('oncurve_terms', []):
        if nm != name:
            continue
        hyp = z3.And(X == X0, z3.ULT(X0, P), z3.ULT(Y0, P), ONCURVE(cid(name), X0, Y0))
        ex.add(z3.Implies(hyp, z3.And(DECOMP_OK(cid(name), X),
                                      z3.Implies(z3.Extract(0, 0, Y0) == z3.Extract(0, 0, tobv(pre, 8)), Y == Y0))))
    return ok, X, Y

def note_oncurve(ex, name, X, Y):
    ex.pstate.setdefault('oncurve_terms', []).append((name, X, Y))

def note_reduced(ex, *vals):
    """values known to be < p < 2^256 on this path"""
    for v in vals:
        if not isinstance(v, int):
            B.note_bound(ex, v, 32)

def _decomp_axioms(ex, name, X, Y, pre):
    p, n = PN[name]
    # the decompressed point is on the curve, reduced, and its parity matches the prefix
    ex.add(z3.And(z3.ULT(Y, z3.BitVecVal(p, W)), ONCURVE(cid(name), X, Y), z3.Extract(0, 0, Y) == z3.Extract(0, 0, tobv(pre, 8))))
    note_oncurve(ex, name, X, Y)
    note_reduced(ex, Y)

def unmarshal_compressed(ex, a, ins):
    curve, data = a
    name = curve_name_of(ex, curve)
    bs = ex.read_bytes(data)
    if len(bs) != 33:
        return (NIL, NIL)
    ok, X, Y = _decompress(ex, name, bs)
    if not ex.decide(ok):
        return (NIL, NIL)
    _decomp_axioms(ex, name, X, Y, bs[0])
    return (new_big(ex, X, 32), new_big(ex, Y, 32))

def marshal_compressed(ex, a, ins):
    curve, x, y = a
    xv, _ = bget(ex, x); yv, _ = bget(ex, y)
    Yb = tobv(yv, W)
    pre = simp(z3.Concat(z3.BitVecVal(1, 7), z3.Extract(0, 0, Yb)))    # 2 | (y & 1)
    return ex.make_bytes([pre] + [to_byte(xv, 31 - i) for i in range(32)], 'marshalCompressed')

def parse_pubkey(ex, a, ins):
    """btcec.ParsePubKey: 33 bytes compressed (02/03 || X), 65 bytes uncompressed (04 || X || Y) or hybrid
    (06/07 || X || Y with the parity of Y in the prefix); coordinates reduced, point on the curve; every other
    length or prefix is an error (documented contract of the library)"""
    data = a[0]
    bs = ex.read_bytes(data)
    name = 'secp256k1'
    p, n = PN[name]
    P = z3.BitVecVal(p, W)
    if len(bs) == 33:
        ok, X, Y = _decompress(ex, name, bs)
        if not ex.decide(ok):
            return (NIL, B_err(ex, 'invalid public key'))
        _decomp_axioms(ex, name, X, Y, bs[0])
    elif len(bs) == 65:
        X, Y = tobv(B.from_bytes_ex(ex, bs[1:33]), W), tobv(B.from_bytes_ex(ex, bs[33:]), W)
        pre = tobv(bs[0], 8)
        fmt_ok = z3.Or(pre == 4, z3.And(z3.Or(pre == 6, pre == 7), z3.Extract(0, 0, pre) == z3.Extract(0, 0, Y)))
        note_oncurve(ex, name, X, Y)
        ok = z3.And(fmt_ok, z3.ULT(X, P), z3.ULT(Y, P), ONCURVE(cid(name), X, Y))
        if not ex.decide(ok):
            return (NIL, B_err(ex, 'invalid public key'))
        note_reduced(ex, X, Y)
    else:
        return (NIL, B_err(ex, 'malformed public key: invalid length'))
    o = ex.mem.alloc(8, True, 'btcecPub')
    o.meta = {'xy': (X, Y)}
    return (Ptr(o, 0), None)

def to_ecdsa(ex, a, ins):
    X, Y = a[0].obj.meta['xy']
    tid = 'crypto/ecdsa.PublicKey'
    p = ex.new(tid, 'ecdsa.PublicKey')
    t = ex.prog.T(tid)
    f = {x['name']: x for x in t['fields']}
    ex._store(p.obj, f['Curve']['off'], f['Curve']['type'], Iface('*github.com/decred/dcrd/dcrec/secp256k1/v4.KoblitzCurve', B.s256(ex, [], None)))
    ex._store(p.obj, f['X']['off'], f['X']['type'], new_big(ex, X, 32))
    ex._store(p.obj, f['Y']['off'], f['Y']['type'], new_big(ex, Y, 32))
    return p

def pk_params(ex, a, ins):
    """(*ecdsa.PublicKey).Params (promoted through the embedded Curve)"""
    curve, X, Y = _pk_fields(ex, a[0])
    return B.curve_params(ex, curve_name_of(ex, curve))

def ref_ecdsa_verify(ex, a, ins):
    pub, z, r, s = a
    curve, X, Y = _pk_fields(ex, pub)
    name = curve_name_of(ex, curve)
    p, n = PN[name]
    x, _ = bget(ex, X); y, _ = bget(ex, Y)
    R, S_ = tobv(B.from_bytes_ex(ex, ex.read_bytes(r)), W), tobv(B.from_bytes_ex(ex, ex.read_bytes(s)), W)
    N = z3.BitVecVal(n, W)
    zz = hash_to_z(ex.read_bytes(z))
    return simp(z3.And(R != 0, S_ != 0, z3.ULT(R, N), z3.ULT(S_, N), ECDSA_OK(cid(name), tobv(x, W), tobv(y, W), tobv(zz, W), R, S_)))

def ref_on_curve(ex, a, ins):
    algo, x, y = a
    name = 'P-256' if algo == 0 else 'secp256k1'
    return ONCURVE(cid(name), tobv(B.from_bytes_ex(ex, ex.read_bytes(x)), W), tobv(B.from_bytes_ex(ex, ex.read_bytes(y)), W))

# ---- btcec native secp256k1 route (an alternative verification back end a maintainer may wire in)

def _ftab(ex):
    return ex.pstate.setdefault('secp_vals', {})

def _set_mod(modulus):
    def f(ex, a, ins):
        """SetByteSlice: the first 32 bytes as a big-endian integer, reduced modulo the group order (ModNScalar) /
        field prime (FieldVal); returns whether the integer was >= the modulus (documented contract)"""
        p, b = a[0], a[1]
        bs = ex.read_bytes(b)[:32]
        v = tobv(B.from_bytes_ex(ex, bs), W) if bs else z3.BitVecVal(0, W)
        M = z3.BitVecVal(modulus, W)
        ov = z3.UGE(v, M)
        _ftab(ex)[(p.obj.id, p.off)] = simp(z3.If(ov, v - M, v))
        return simp(ov)
    return f

def secp_new_pubkey(ex, a, ins):
    X = _ftab(ex).get((a[0].obj.id, a[0].off)); Y = _ftab(ex).get((a[1].obj.id, a[1].off))
    if X is None or Y is None:
        raise Unsupported('NewPublicKey on field values that were not set through SetByteSlice')
    o = ex.mem.alloc(8, True, 'btcecPub')
    o.meta = {'xy': (X, Y)}
    return Ptr(o, 0)

def btc_new_signature(ex, a, ins):
    r = _ftab(ex).get((a[0].obj.id, a[0].off)); s_ = _ftab(ex).get((a[1].obj.id, a[1].off))
    if r is None or s_ is None:
        raise Unsupported('NewSignature on scalars that were not set through SetByteSlice')
    o = ex.mem.alloc(8, True, 'btcecSig')
    o.meta = {'rs': (r, s_)}
    return Ptr(o, 0)

def btc_sig_verify(ex, a, ins):
    """(*ecdsa.Signature).Verify(hash, pubKey): r, s non-zero (they are reduced already) and the ECDSA relation on
    the leftmost 256 bits of the hash -- the same uninterpreted relation as crypto/ecdsa.Verify"""
    sig, h, pub = a
    r, s_ = sig.obj.meta['rs']
    X, Y = pub.obj.meta['xy']
    z = hash_to_z(ex.read_bytes(h))
    name = 'secp256k1'
    return simp(z3.And(r != 0, s_ != 0, ECDSA_OK(cid(name), tobv(X, W), tobv(Y, W), tobv(z, W), tobv(r, W), tobv(s_, W))))

GEN = {'P-256': (0x6b17d1f2e12c4247f8bce6e563a440f277037d812deb33a0f4a13945d898c296, 0x4fe342e2fe1a7f9b8ee7eb4a7c0f9e162bce33576b315ececbb6406837bf51f5),
       'secp256k1': (0x79be667ef9dcbbac55a06295ce870b07029bfcdb2dce28d959f2815b16f81798, 0x483ada7726a3c4655da4fbfc0e1108a8fd17b448a68554199c47d08ffb10d4b8)}

def refine_oncurve(ex, m, neg):
    """counterexamples that need 'some on-curve point': ask for the standard generator, which is a real point
    (the on-curve predicate is uninterpreted, so the solver's own choice would not be on the curve natively)"""
    extra = []
    seen = set()
    for (name, X, Y) in ex.pstate.get('oncurve_terms', []):
        if isinstance(X, int) or isinstance(Y, int) or X.get_id() in seen:
            continue
        seen.add(X.get_id())
        try:
            if not z3.is_true(m.eval(ONCURVE(cid(name), X, Y), model_completion=True)):
                continue
        except z3.Z3Exception:
            continue
        gx, gy = GEN[name]
        extra.append(z3.And(X == z3.BitVecVal(gx, W), Y == z3.BitVecVal(gy, W)))
        break
    if not extra:
        # same for 'some x that decompresses': the generator's x with the prefix of its y parity
        for (name, X, pre) in ex.pstate.get('decomp_terms', []):
            if isinstance(X, int):
                continue
            try:
                if not z3.is_true(m.eval(DECOMP_OK(cid(name), X), model_completion=True)):
                    continue
            except z3.Z3Exception:
                continue
            gx, gy = GEN[name]
            extra.append(z3.And(X == z3.BitVecVal(gx, W), pre == z3.BitVecVal(2 + (gy & 1), 8)))
            break
    return extra

def install(ex):
    if refine_oncurve not in ex.model_refiners:
        ex.model_refiners.append(refine_oncurve)
    S = ex.stubs
    S['github.com/onflow/crypto.refECDSAVerify'] = ref_ecdsa_verify
    S['github.com/onflow/crypto.refOnCurve'] = ref_on_curve
    for n in list(ex.prog.funcs):
        if n.startswith('crypto/hkdf.Key'):
            S[n] = hkdf_key
    for p in ('github.com/onflow/crypto', ):
        S[p + '.refHKDF'] = ref_hkdf
    SECP = 'github.com/decred/dcrd/dcrec/secp256k1/v4'
    S['(*%s.ModNScalar).SetByteSlice' % SECP] = _set_mod(SECP_N)
    S['(*%s.FieldVal).SetByteSlice' % SECP] = _set_mod(SECP_P)
    S[SECP + '.NewPublicKey'] = secp_new_pubkey
    S['github.com/btcsuite/btcd/btcec/v2.NewPublicKey'] = secp_new_pubkey
    S['github.com/btcsuite/btcd/btcec/v2/ecdsa.NewSignature'] = btc_new_signature
    S['(*github.com/btcsuite/btcd/btcec/v2/ecdsa.Signature).Verify'] = btc_sig_verify
    S['(*%s/ecdsa.Signature).Verify' % SECP] = btc_sig_verify
    S[SECP + '/ecdsa.NewSignature'] = btc_new_signature
    S['crypto/ecdsa.Sign'] = ecdsa_sign
    S['crypto/ecdsa.Verify'] = ecdsa_verify
    S['crypto/ecdsa.VerifyASN1'] = ecdsa_verify_asn1
    S['crypto/ecdh.P256'] = ecdh_p256
    S[('method', 'verif.ecdhcurve', 'NewPrivateKey')] = ecdh_new_private
    S[('method', 'verif.ecdhcurve', 'NewPublicKey')] = ecdh_new_public
    S['(*crypto/ecdh.PrivateKey).PublicKey'] = ecdh_priv_public
    S['(*crypto/ecdh.PublicKey).Bytes'] = ecdh_pub_bytes
    K = B.KOB
    S[K + 'ScalarBaseMult'] = kob_scalar_base_mult
    S[K + 'IsOnCurve'] = kob_is_on_curve
    S['crypto/elliptic.UnmarshalCompressed'] = unmarshal_compressed
    S['crypto/elliptic.MarshalCompressed'] = marshal_compressed
    S['github.com/btcsuite/btcd/btcec/v2.ParsePubKey'] = parse_pubkey
    S['(*github.com/decred/dcrd/dcrec/secp256k1/v4.PublicKey).ToECDSA'] = to_ecdsa
    S['(*crypto/ecdsa.PublicKey).Params'] = pk_params
    S['(crypto/ecdsa.PublicKey).Params'] = pk_params

TRUSTED = ['crypto/hkdf.Key: uninterpreted function of (secret, salt, info, length) bytes',
           'crypto/ecdsa.Sign: returns some (r, s) with 1 <= r, s < n satisfying the uninterpreted ECDSA relation for (curve, public key, leftmost 256 bits of the hash)',
           'crypto/ecdsa.Verify: 1 <= r, s < n and the same relation',
           'crypto/ecdsa.VerifyASN1: strict DER SEQUENCE of two minimal non-negative INTEGERs (structure bytes concrete on the path), then as Verify; golang.org/x/crypto/cryptobyte is executed from its SSA',
           'crypto/ecdh P-256 NewPrivateKey (1 <= d < n), PublicKey().Bytes() (04||X||Y of an uninterpreted derivation, reduced, on curve), NewPublicKey (04 prefix, reduced, on-curve predicate)',
           'btcec native route: ModNScalar / FieldVal SetByteSlice (reduction modulo n / p with overflow flag), NewPublicKey, ecdsa.NewSignature, Signature.Verify (r, s non-zero and the same uninterpreted ECDSA relation)',
           'btcec S256().ScalarBaseMult / IsOnCurve / ParsePubKey / ToECDSA, elliptic.UnmarshalCompressed / MarshalCompressed: uninterpreted derivation, on-curve predicate and decompression with the documented prefix / range / parity contract']
