# Keccak-f[1600]: the pure-Go permutation of hash/keccakf.go equals FIPS 202 section 3.2 for ALL states.
# The function is 24 rounds on an in-place, lane-permuted layout (4 rounds per loop iteration); a monolithic
# equivalence query does not finish. The executor therefore cuts the execution after every 25th store into the
# state array (= one round): it proves, for arbitrary symbolic lanes, that the 25 lanes just written are one
# FIPS 202 round (theta, rho, pi, chi, iota with the standard round constant) of the lanes before, under the
# lane layout discovered by one concrete run, and then replaces the lanes by fresh symbolic ones. 24 such
# lemmas plus "the layout after round 24 is the identity" give the whole permutation (each round is a
# bijection, so every intermediate state is reachable and the cut loses nothing).
import random
import z3
from .core import *
from . import core

RC = [0x0000000000000001, 0x0000000000008082, 0x800000000000808A, 0x8000000080008000, 0x000000000000808B, 0x0000000080000001,
      0x8000000080008081, 0x8000000000008009, 0x000000000000008A, 0x0000000000000088, 0x0000000080008009, 0x000000008000000A,
      0x000000008000808B, 0x800000000000008B, 0x8000000000008089, 0x8000000000008003, 0x8000000000008002, 0x8000000000000080,
      0x000000000000800A, 0x800000008000000A, 0x8000000080008081, 0x8000000000008080, 0x0000000080000001, 0x8000000080008008]
# rotation offsets r[x][y] of FIPS 202 table 2 (lane (x, y) is A[x + 5*y])
ROT = [[0, 36, 3, 41, 18], [1, 44, 10, 45, 2], [62, 6, 43, 15, 61], [28, 55, 25, 21, 56], [27, 20, 39, 8, 14]]
M64 = (1 << 64) - 1

def rotl(v, n):
    n %= 64
    if isinstance(v, int):
        return ((v << n) | (v >> (64 - n))) & M64 if n else v
    return z3.RotateLeft(v, n) if n else v

def ref_round(A, rc):
    """one round of Keccak-f[1600] on 25 lanes (ints or 64-bit z3 terms), A[x + 5*y]"""
    X = lambda a, b: (a ^ b)
    C = [A[x] ^ A[x + 5] ^ A[x + 10] ^ A[x + 15] ^ A[x + 20] for x in range(5)]
    D = [C[(x - 1) % 5] ^ rotl(C[(x + 1) % 5], 1) for x in range(5)]
    A = [A[i] ^ D[i % 5] for i in range(25)]
    B = [None] * 25
    for x in range(5):
        for y in range(5):
            B[y + 5 * ((2 * x + 3 * y) % 5)] = rotl(A[x + 5 * y], ROT[x][y])
    out = [None] * 25
    for x in range(5):
        for y in range(5):
            b1, b2 = B[(x + 1) % 5 + 5 * y], B[(x + 2) % 5 + 5 * y]
            nb1 = (~b1 & M64) if isinstance(b1, int) else ~b1
            out[x + 5 * y] = B[x + 5 * y] ^ (nb1 & b2)
    out[0] = out[0] ^ rc
    return out

class Hook:
    def __init__(self, ex, obj, off, on_round):
        self.ex, self.obj, self.off, self.on_round = ex, obj, off, on_round
        self.count = 0
        self.busy = False
    def __call__(self, obj, off, n):
        if self.busy or obj is not self.obj or off < self.off or off >= self.off + 200:
            return
        self.count += 1
        if self.count % 25 == 0:
            self.busy = True
            try:
                self.on_round(self.count // 25)
            finally:
                self.busy = False

def lanes_of(ex, obj, off):
    return [ex.mem.read(obj, off + 8 * i, 8) for i in range(25)]

def discover_layouts(ex, fname, seed):
    """one concrete run of the real function: lane layout after every round (position of standard lane p in the code's array)"""
    rng = random.Random(seed)
    init = [rng.getrandbits(64) for _ in range(25)]
    ex2 = core.Executor(ex.prog, timeout_ms=ex.timeout_ms, seed=ex.seed)
    ex2.stubs = dict(ex.stubs)
    ex2.reset_path([])
    ex2.call('github.com/onflow/crypto/hash.init', [])      # the round-constant table is initialised by the package initialiser
    o = ex2.mem.alloc(200, True, 'keccak_state')
    for i, v in enumerate(init):
        ex2.mem.write(o, 8 * i, 8, v)
    states = []
    hook = Hook(ex2, o, 0, lambda r: states.append([ex2.mem.read(o, 8 * i, 8) or 0 for i in range(25)]))
    ex2.mem.hook = hook
    ex2.call(fname, [Ptr(o, 0)])
    ex2.mem.hook = None
    layouts = []
    ref = list(init)
    bad = None
    for r, st in enumerate(states):
        ref = ref_round(ref, RC[r]) if r < 24 else ref
        lay = []
        for p in range(25):
            pos = [j for j in range(25) if st[j] == ref[p]]
            if len(pos) != 1:
                bad = r
                break
            lay.append(pos[0])
        if bad is not None:
            break
        layouts.append(lay)
    return init, states, layouts, bad

def keccak_lemma(ex, a, ins):
    """verifKeccakLemma(&state): runs hash.keccakF1600 on the symbolic state with the per-round cut"""
    p = a[0]
    lo, hi = (signed(a[1], 64), signed(a[2], 64)) if len(a) >= 3 else (1, 24)      # rounds whose lemma this case discharges
    fname = 'github.com/onflow/crypto/hash.keccakF1600'
    ex.call('github.com/onflow/crypto/hash.init', [])
    init, states, layouts, bad = discover_layouts(ex, fname, ex.seed + 17)
    ex.events.append(('assert', 'concrete run: %d rounds observed' % len(states)))
    ex.verif_assert(len(states) == 24, 'keccakF1600 stores the 25 lanes exactly 24 times (24 rounds)')
    ex.verif_assert(bad is None, 'concrete run: the state after round %s is a lane permutation of the FIPS 202 state' % (bad,))
    ex.verif_assert(bool(layouts) and layouts[-1] == list(range(25)), 'the lane layout after the last round is the identity')
    S = lanes_of(ex, p.obj, p.off)            # standard layout at the start
    S = [tobv(v, 64) for v in S]
    state = {'S': S}
    def on_round(r):
        T = lanes_of(ex, p.obj, p.off)
        R = ref_round(state['S'], z3.BitVecVal(RC[r - 1], 64))
        lay = layouts[r - 1]
        for q in (range(25) if lo <= r <= hi else ()):
            ex.events.append(('assert', 'round lemma'))
            ex.verif_assert(tobv(T[lay[q]], 64) == R[q], 'round %d: lane (%d,%d) of the code equals theta/rho/pi/chi/iota of FIPS 202 for every state' % (r, q % 5, q // 5))
        F = [z3.BitVec('kl_%d_%d' % (r, q), 64) for q in range(25)]
        if r < 24:
            for q in range(25):
                ex.mem.write(p.obj, p.off + 8 * lay[q], 8, F[q])
            state['S'] = F
    hook = Hook(ex, p.obj, p.off, on_round)
    ex.mem.hook = hook
    try:
        ex.call(fname, [p])
    finally:
        ex.mem.hook = None
    ex.verif_assert(hook.count == 600, 'exactly 600 lane stores (24 rounds of 25)')
    ex.events.append(('note', 'keccak-f lemma: 24 rounds'))
    return None

def install(ex):
    ex.stubs['github.com/onflow/crypto/hash.verifKeccakLemma'] = keccak_lemma
    ex.stubs['github.com/onflow/crypto/hash.verifNativeOnly'] = lambda ex, a, i: False

def install_case(ex, case):
    """setup hook: hash library models, but the permutation itself is executed (not the uninterpreted function)"""
    from . import stubs_hash
    stubs_hash.install(ex)
    ex.stubs.pop('github.com/onflow/crypto/hash.keccakF1600', None)
    install(ex)
