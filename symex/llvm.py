# LLVM-IR front-end: parses the textual IR clang-14 -O0 emits for the repository's own C
# translation units and interprets it on the same memory / path condition as the Go side.
import re, os, subprocess, hashlib
import z3
from .core import *
from . import core

CFLAGS = ['-I{repo}', '-I{repo}/blst_src', '-I{repo}/blst_src/build', '-D__BLST_CGO__', '-mno-avx',
          '-fno-builtin-memcpy', '-fno-builtin-memset', '-Wno-everything']
UNITS = ['bls12381_utils', 'bls_core', 'dkg_core', 'bls_thresholdsign_core']

def compile_ir(repo, outdir, defs=('-D__ADX__',), opt='-O0'):
    os.makedirs(outdir, exist_ok=True)
    outs = []
    for u in UNITS:
        src = os.path.join(repo, u + '.c')
        out = os.path.join(outdir, u + '.ll')
        cmd = ['clang-14', opt, '-S', '-emit-llvm', '-Xclang', '-disable-O0-optnone'] + [f.format(repo=repo) for f in CFLAGS] + list(defs) + [src, '-o', out]
        r = subprocess.run(cmd, stdout=subprocess.PIPE, stderr=subprocess.STDOUT, text=True)
        if r.returncode != 0:
            raise RuntimeError('clang failed for %s:\n%s' % (u, r.stdout))
        outs.append(out)
    return outs

# ----------------------------------------------------------------------------
# tokenizer / parser

TOK = re.compile(r'\s*(c"(?:[^"\\]|\\[0-9A-Fa-f]{2}|\\\\)*"|"(?:[^"\\]|\\.)*"|[%@][-a-zA-Z$._0-9]+|[%@]"[^"]*"|![-a-zA-Z$._0-9]*|-?\d+|[a-zA-Z_][a-zA-Z0-9_.]*|\.\.\.|[()\[\]{}<>,*=:#])')

def tokenize(s):
    out = []
    pos = 0
    n = len(s)
    while pos < n:
        m = TOK.match(s, pos)
        if not m:
            if s[pos:].strip() == '' or s[pos:].lstrip().startswith(';'):
                break
            raise ValueError('tokenize: %r' % s[pos:pos + 40])
        t = m.group(1)
        pos = m.end()
        out.append(t)
    return out

class P:
    def __init__(self, toks):
        self.t = toks
        self.i = 0
    def peek(self, k=0):
        return self.t[self.i + k] if self.i + k < len(self.t) else None
    def next(self):
        t = self.t[self.i]
        self.i += 1
        return t
    def eat(self, x):
        if self.peek() == x:
            self.i += 1
            return True
        return False
    def expect(self, x):
        t = self.next()
        if t != x:
            raise ValueError('expected %s got %s in %s' % (x, t, ' '.join(self.t[max(0, self.i - 8):self.i + 8])))

ATTRS = set('noundef nonnull signext zeroext inreg byval sret noalias nocapture readonly readnone writeonly returned nest immarg inbounds nsw nuw exact dso_local internal private external hidden unnamed_addr local_unnamed_addr constant global tail musttail notail volatile align dereferenceable dereferenceable_or_null nofree nosync nounwind willreturn common weak linkonce_odr available_externally fastcc ccc weak_odr thread_local extern_weak'.split())

def parse_type(p):
    t = p.next()
    if t == 'void':
        ty = ('void',)
    elif re.match(r'^i\d+$', t):
        ty = ('int', int(t[1:]))
    elif t in ('float', 'double', 'x86_fp80'):
        ty = ('fp', t)
    elif t[0] == '%':
        ty = ('named', t)
    elif t == '[':
        n = int(p.next()); p.expect('x'); e = parse_type(p); p.expect(']')
        ty = ('arr', n, e)
    elif t == '{':
        fs = []
        if not p.eat('}'):
            while True:
                fs.append(parse_type(p))
                if p.eat('}'):
                    break
                p.expect(',')
        ty = ('struct', tuple(fs), False)
    elif t == '<':
        if p.peek() == '{':
            p.next()
            fs = []
            if not p.eat('}'):
                while True:
                    fs.append(parse_type(p))
                    if p.eat('}'):
                        break
                    p.expect(',')
            p.expect('>')
            ty = ('struct', tuple(fs), True)
        else:
            n = int(p.next()); p.expect('x'); e = parse_type(p); p.expect('>')
            ty = ('vec', n, e)
    elif t == 'opaque':
        ty = ('opaque',)
    elif t == 'ptr':
        ty = ('ptr', ('int', 8))
    elif t == 'metadata':
        ty = ('metadata',)
    elif t == 'label':
        ty = ('label',)
    else:
        raise ValueError('type? %s' % t)
    while True:
        if p.peek() == '*':
            p.next()
            ty = ('ptr', ty)
        elif p.peek() == '(':
            # function type
            p.next()
            ps = []
            if not p.eat(')'):
                while True:
                    if p.eat('...'):
                        ps.append(('varargs',))
                    else:
                        ps.append(parse_type(p))
                        while p.peek() in ATTRS:
                            p.next()
                    if p.eat(')'):
                        break
                    p.expect(',')
            ty = ('func', ty, tuple(ps))
        else:
            break
    return ty

class Module:
    def __init__(self):
        self.named = {}
        self.funcs = {}
        self.globals = {}     # name -> (type, init, const)
        self.decls = set()
        self._layout = {}

    # ---- layout
    def resolve(self, ty):
        while ty[0] == 'named':
            ty = self.named[ty[1]]
        return ty

    def sizeof(self, ty):
        return self.layout(ty)[0]

    def layout(self, ty):
        r = self._layout.get(ty)
        if r:
            return r
        t = self.resolve(ty)
        k = t[0]
        if k == 'int':
            s = max(1, (t[1] + 7) // 8)
            a = 1
            while a < s and a < 16:
                a *= 2
            # i24 etc: size rounded to align
            s = (s + a - 1) // a * a
            r = (s, min(a, 16), None)
        elif k == 'ptr':
            r = (8, 8, None)
        elif k == 'arr':
            es, ea, _ = self.layout(t[2])
            r = (es * t[1], ea, None)
        elif k == 'struct':
            off = 0
            al = 1
            offs = []
            for f in t[1]:
                fs, fa, _ = self.layout(f)
                if t[2]:
                    fa = 1
                off = (off + fa - 1) // fa * fa
                offs.append(off)
                off += fs
                al = max(al, fa)
            off = (off + al - 1) // al * al
            r = (off, al, tuple(offs))
        elif k == 'fp':
            r = ({'float': 4, 'double': 8, 'x86_fp80': 16}[t[1]],) * 2 + (None,)
        elif k == 'vec':
            es, ea, _ = self.layout(t[2])
            r = (es * t[1], es * t[1], None)
        elif k == 'func':
            r = (8, 8, None)
        else:
            raise Unsupported('layout of %r' % (t,))
        self._layout[ty] = r
        return r

def parse_value(p, ty, mod):
    """parse an operand of known type -> operand tuple"""
    t = p.peek()
    if t[0] == '%':
        p.next()
        return ('l', t)
    if t[0] == '@':
        p.next()
        return ('g', t)
    if re.match(r'^-?\d+$', t):
        p.next()
        w = mod.resolve(ty)[1] if mod.resolve(ty)[0] == 'int' else 64
        return ('c', int(t) & mask(w))
    if t in ('true', 'false'):
        p.next()
        return ('c', t == 'true')
    if t == 'null':
        p.next()
        return ('null',)
    if t in ('undef', 'poison'):
        p.next()
        return ('undef', ty)
    if t == 'zeroinitializer':
        p.next()
        return ('zero', ty)
    if t == 'getelementptr':
        p.next()
        p.eat('inbounds')
        p.expect('(')
        bt = parse_type(p); p.expect(',')
        pt = parse_type(p)
        base = parse_value(p, pt, mod)
        idx = []
        while p.eat(','):
            p.eat('inrange')
            it = parse_type(p)
            idx.append(parse_value(p, it, mod))
        p.expect(')')
        return ('cgep', bt, base, idx)
    if t in ('bitcast', 'ptrtoint', 'inttoptr', 'addrspacecast'):
        p.next(); p.expect('(')
        st = parse_type(p)
        v = parse_value(p, st, mod)
        p.expect('to'); parse_type(p); p.expect(')')
        return v
    if t == '[':
        p.next()
        el = []
        if not p.eat(']'):
            while True:
                et = parse_type(p)
                el.append((et, parse_value(p, et, mod)))
                if p.eat(']'):
                    break
                p.expect(',')
        return ('agg', el)
    if t == '{' or (t == '<' and p.peek(1) == '{'):
        packed = t == '<'
        if packed:
            p.next()
        p.next()
        el = []
        if not p.eat('}'):
            while True:
                et = parse_type(p)
                el.append((et, parse_value(p, et, mod)))
                if p.eat('}'):
                    break
                p.expect(',')
        if packed:
            p.expect('>')
        return ('agg', el)
    if t.startswith('c"'):
        p.next()
        s = t[2:-1]
        bs = []
        i = 0
        while i < len(s):
            if s[i] == '\\':
                if s[i + 1] == '\\':
                    bs.append(92); i += 2
                else:
                    bs.append(int(s[i + 1:i + 3], 16)); i += 3
            else:
                bs.append(ord(s[i])); i += 1
        return ('agg', [(('int', 8), ('c', b)) for b in bs])
    raise ValueError('value? %s (%s)' % (t, ' '.join(p.t[max(0, p.i - 6):p.i + 6])))

def skip_attrs(p):
    while True:
        t = p.peek()
        if t in ATTRS:
            p.next()
            if t in ('align', 'dereferenceable', 'dereferenceable_or_null'):
                if p.peek() == '(':
                    p.next(); p.next(); p.expect(')')
                elif t == 'align':
                    p.next()
            elif t in ('byval', 'sret') and p.peek() == '(':
                p.next(); parse_type(p); p.expect(')')
            continue
        if t is not None and t.startswith('#'):
            p.next(); p.next()
            continue
        break

def parse_module(paths):
    mod = Module()
    for path in paths:
        lines = open(path).read().split('\n')
        i = 0
        while i < len(lines):
            ln = lines[i]
            i += 1
            if not ln or ln[0] == ';' or ln.startswith('source_filename') or ln.startswith('target') or ln.startswith('attributes') or ln[0] == '!':
                continue
            if ln[0] == '%' and ' = type ' in ln:
                name, rest = ln.split(' = type ', 1)
                if name not in mod.named or mod.named[name][0] == 'opaque':
                    mod.named[name] = parse_type(P(tokenize(rest)))
                continue
            if ln[0] == '@':
                parse_global(mod, ln)
                continue
            if ln.startswith('declare'):
                m = re.search(r'@([-a-zA-Z$._0-9]+)\(', ln)
                if m:
                    mod.decls.add('@' + m.group(1))
                continue
            if ln.startswith('define'):
                body = []
                while lines[i] != '}':
                    body.append(lines[i])
                    i += 1
                i += 1
                f = parse_function(mod, ln, body)
                if f['name'] not in mod.funcs:
                    mod.funcs[f['name']] = f
                continue
    return mod

def parse_global(mod, ln):
    p = P(tokenize(ln.split(', align')[0].split(', section')[0].split(', comdat')[0]))
    name = p.next()
    p.expect('=')
    isconst = False
    external = False
    while p.peek() in ATTRS or p.peek() == 'external':
        t = p.next()
        if t == 'constant':
            isconst = True
        if t == 'external':
            external = True
    ty = parse_type(p)
    init = None
    if p.peek() is not None:
        init = parse_value(p, ty, mod)
    if name in mod.globals and mod.globals[name][1] is not None:
        return
    mod.globals[name] = (ty, init, isconst)

def parse_function(mod, header, body):
    p = P(tokenize(header))
    p.expect('define')
    skip_attrs(p)
    rt = parse_type(p)
    # parse_type may have consumed the parameter list as a function type when ret type is followed by '(' -- not here,
    name = p.next()
    p.expect('(')
    params = []
    if not p.eat(')'):
        while True:
            if p.eat('...'):
                pass
            else:
                pt = parse_type(p)
                skip_attrs(p)
                pn = p.next() if (p.peek() and p.peek()[0] == '%') else None
                params.append((pt, pn))
            if p.eat(')'):
                break
            p.expect(',')
    f = {'name': name, 'ret': rt, 'params': params, 'blocks': {}, 'order': []}
    # unnamed params are %0..%n-1, entry block label is %n
    for k, (pt, pn) in enumerate(params):
        if pn is None:
            params[k] = (pt, '%%%d' % k)
    cur = '%%%d' % len(params)
    f['entry'] = cur
    f['blocks'][cur] = []
    f['order'].append(cur)
    j = 0
    while j < len(body):
        ln = body[j]
        j += 1
        s = ln.strip()
        if not s or s[0] == ';':
            continue
        m = re.match(r'^([-a-zA-Z$._0-9]+):', ln)
        if m:
            cur = '%' + m.group(1)
            f['blocks'][cur] = []
            f['order'].append(cur)
            continue
        if s.startswith('switch') or ' switch ' in s:
            while not body[j - 1].strip().endswith(']'):
                s += ' ' + body[j].strip()
                j += 1
        ins = parse_instr(mod, s)
        if ins is not None:
            f['blocks'][cur].append(ins)
    return f

BINOPS = {'add': '+', 'sub': '-', 'mul': '*', 'udiv': '/u', 'sdiv': '/s', 'urem': '%u', 'srem': '%s', 'and': '&', 'or': '|', 'xor': '^',
          'shl': '<<', 'lshr': '>>u', 'ashr': '>>s'}
ICMP = {'eq': ('==', False), 'ne': ('!=', False), 'ugt': ('>', False), 'uge': ('>=', False), 'ult': ('<', False), 'ule': ('<=', False),
        'sgt': ('>', True), 'sge': ('>=', True), 'slt': ('<', True), 'sle': ('<=', True)}

def parse_instr(mod, s):
    s = re.sub(r',\s*![a-zA-Z._0-9]+\s+![-a-zA-Z._0-9]+', '', s)   # strip metadata attachments
    p = P(tokenize(s))
    dst = None
    if p.peek(1) == '=':
        dst = p.next(); p.next()
    op = p.next()
    while op in ('tail', 'musttail', 'notail'):
        op = p.next()
    I = {'op': op, 'dst': dst, 'src': s}
    if op in BINOPS:
        while p.peek() in ('nsw', 'nuw', 'exact'):
            p.next()
        ty = parse_type(p)
        I['ty'] = ty
        I['a'] = parse_value(p, ty, mod); p.expect(',')
        I['b'] = parse_value(p, ty, mod)
        I['bop'] = BINOPS[op]
        I['op'] = 'binop'
    elif op == 'icmp':
        cc = p.next()
        ty = parse_type(p)
        I['ty'] = ty; I['cc'] = cc
        I['a'] = parse_value(p, ty, mod); p.expect(',')
        I['b'] = parse_value(p, ty, mod)
    elif op == 'alloca':
        p.eat('inalloca')
        I['ty'] = parse_type(p)
        I['n'] = None
        if p.eat(','):
            if p.peek() == 'align':
                pass
            else:
                nt = parse_type(p)
                I['n'] = parse_value(p, nt, mod)
    elif op == 'load':
        p.eat('volatile')
        I['ty'] = parse_type(p); p.expect(',')
        pt = parse_type(p)
        I['p'] = parse_value(p, pt, mod)
    elif op == 'store':
        p.eat('volatile')
        ty = parse_type(p)
        I['ty'] = ty
        I['v'] = parse_value(p, ty, mod); p.expect(',')
        pt = parse_type(p)
        I['p'] = parse_value(p, pt, mod)
    elif op == 'getelementptr':
        p.eat('inbounds')
        I['bt'] = parse_type(p); p.expect(',')
        pt = parse_type(p)
        I['p'] = parse_value(p, pt, mod)
        idx = []
        while p.eat(','):
            it = parse_type(p)
            idx.append((it, parse_value(p, it, mod)))
        I['idx'] = idx
    elif op in ('zext', 'sext', 'trunc', 'bitcast', 'ptrtoint', 'inttoptr'):
        st = parse_type(p)
        I['st'] = st
        I['v'] = parse_value(p, st, mod)
        p.expect('to')
        I['tt'] = parse_type(p)
    elif op == 'br':
        if p.peek() == 'label':
            p.next()
            I['t'] = p.next()
            I['c'] = None
        else:
            ct = parse_type(p)
            I['c'] = parse_value(p, ct, mod); p.expect(',')
            p.expect('label'); I['t'] = p.next(); p.expect(',')
            p.expect('label'); I['f'] = p.next()
    elif op == 'switch':
        ty = parse_type(p)
        I['ty'] = ty
        I['v'] = parse_value(p, ty, mod); p.expect(',')
        p.expect('label'); I['default'] = p.next()
        p.expect('[')
        cases = []
        while not p.eat(']'):
            ct = parse_type(p)
            cv = parse_value(p, ct, mod); p.expect(',')
            p.expect('label')
            cases.append((cv, p.next()))
        I['cases'] = cases
    elif op == 'ret':
        ty = parse_type(p)
        I['ty'] = ty
        I['v'] = None if ty == ('void',) else parse_value(p, ty, mod)
    elif op == 'phi':
        ty = parse_type(p)
        I['ty'] = ty
        inc = []
        while True:
            p.expect('[')
            v = parse_value(p, ty, mod); p.expect(',')
            lab = p.next(); p.expect(']')
            inc.append((v, lab))
            if not p.eat(','):
                break
        I['inc'] = inc
    elif op == 'select':
        ct = parse_type(p)
        I['c'] = parse_value(p, ct, mod); p.expect(',')
        ty = parse_type(p)
        I['ty'] = ty
        I['a'] = parse_value(p, ty, mod); p.expect(',')
        parse_type(p)
        I['b'] = parse_value(p, ty, mod)
    elif op == 'call':
        skip_attrs(p)
        rt = parse_type(p)
        # "call void (i8*, ...) @f(...)" : parse_type swallowed a function type
        if rt[0] == 'func':
            rt = rt[1]
        elif rt[0] == 'ptr' and rt[1][0] == 'func' and p.peek() != '(' and False:
            pass
        I['rt'] = rt
        t = p.peek()
        if t == 'asm':
            I['asm'] = True
            return I
        I['fn'] = parse_value(p, ('ptr', ('int', 8)), mod)
        p.expect('(')
        args = []
        if not p.eat(')'):
            while True:
                at = parse_type(p)
                skip_attrs(p)
                args.append((at, parse_value(p, at, mod)))
                if p.eat(')'):
                    break
                p.expect(',')
        I['args'] = args
    elif op == 'unreachable':
        pass
    elif op in ('extractvalue', 'insertvalue', 'fence', 'atomicrmw', 'cmpxchg', 'va_arg', 'fadd', 'fmul', 'fsub', 'fdiv', 'fcmp', 'sitofp', 'uitofp', 'fptosi', 'fptoui', 'fpext', 'fptrunc', 'extractelement', 'insertelement', 'shufflevector', 'freeze'):
        I['unsupported'] = True
    else:
        raise ValueError('instr? ' + s)
    return I

# ----------------------------------------------------------------------------
# interpreter

class LLVM:
    def __init__(self, mod):
        self.mod = mod
        self.stubs = {}        # '@name' -> f(L, ex, args, I)
        self.trace_calls = None

    def reset(self):
        self.gobj = {}

    def gptr(self, ex, name):
        st = ex.pstate.setdefault('ll_globals', {})
        p = st.get(name)
        if p is not None:
            return p
        if name in self.mod.funcs or name in self.mod.decls:
            p = Ptr(ex.mem.alloc(1, True, 'fn:' + name, 'c'), 0)
            p.obj.meta = {'fn': name}
            st[name] = p
            return p
        g = self.mod.globals.get(name)
        if g is None:
            raise Unsupported('unknown global ' + name)
        ty, init, isconst = g
        o = ex.mem.alloc(self.mod.sizeof(ty), True, 'g:' + name, 'c')
        p = Ptr(o, 0)
        st[name] = p
        if init is not None:
            self.init_obj(ex, o, 0, ty, init)
        o.ro = bool(isconst)
        return p

    def init_obj(self, ex, o, off, ty, init):
        t = self.mod.resolve(ty)
        k = init[0]
        if k == 'zero' or k == 'undef':
            return
        if k == 'agg':
            if t[0] == 'arr':
                es = self.mod.sizeof(t[2])
                for i, (et, ev) in enumerate(init[1]):
                    self.init_obj(ex, o, off + i * es, et, ev)
            else:
                offs = self.mod.layout(ty)[2]
                for fo, (et, ev) in zip(offs, init[1]):
                    self.init_obj(ex, o, off + fo, et, ev)
            return
        v = self.const(ex, init, ty)
        n = self.mod.sizeof(ty)
        if isinstance(v, bool):
            v = int(v)
        o.cells[off] = (n, v)

    def const(self, ex, v, ty=None):
        k = v[0]
        if k == 'c':
            return v[1]
        if k == 'null':
            return NIL
        if k == 'g':
            return self.gptr(ex, v[1])
        if k == 'undef':
            t = self.mod.resolve(v[1])
            if t[0] == 'int':
                return 0
            return NIL
        if k == 'cgep':
            base = self.const(ex, v[2])
            return self.gep(ex, base, v[1], [(('int', 64), i) for i in v[3]], None)
        if k == 'zero':
            t = self.mod.resolve(v[1])
            if t[0] == 'int':
                return 0
            if t[0] == 'ptr':
                return NIL
        raise Unsupported('const %r' % (v,))

    def gep(self, ex, base, bt, idx, fr):
        if not isinstance(base, Ptr):
            raise Unsupported('gep on non-pointer %r' % (base,))
        off = 0
        ty = bt
        first = True
        for (it, iv) in idx:
            i = self.val(ex, fr, iv) if fr is not None or iv[0] != 'l' else None
            iw = self.mod.resolve(it)[1]
            if isinstance(i, int):
                i = signed(i, iw)
            else:
                i = int_convert(i, iw, True, 64)
            if first:
                first = False
                sz = self.mod.sizeof(ty)
                off = self._addoff(off, i, sz)
                continue
            t = self.mod.resolve(ty)
            if t[0] == 'struct':
                offs = self.mod.layout(ty)[2]
                off = self._addoff(off, offs[i], 1)
                ty = t[1][i]
            elif t[0] in ('arr', 'vec'):
                ty = t[2]
                off = self._addoff(off, i, self.mod.sizeof(ty))
            else:
                raise Unsupported('gep into %r' % (t,))
        return base.add(off) if not (isinstance(off, int) and off == 0) else base

    @staticmethod
    def _addoff(off, i, sz):
        if isinstance(i, int) and isinstance(off, int):
            return off + i * sz
        return simp(tobv(off, 64) + tobv(i, 64) * z3.BitVecVal(sz, 64))

    def val(self, ex, fr, v):
        k = v[0]
        if k == 'l':
            try:
                return fr[v[1]]
            except KeyError:
                raise Unsupported('unset llvm local ' + v[1])
        return self.const(ex, v)

    # ---- typed memory access
    def load(self, ex, p, ty):
        if not isinstance(p, Ptr):
            raise Unsupported('C load through %r' % (p,))
        if p.obj is None:
            raise GoPanic('c-null-deref', 'load')
        t = self.mod.resolve(ty)
        n = self.mod.sizeof(ty)
        off = p.off
        if not isinstance(off, int):
            off = ex.concretize(off, 0, max(p.obj.size - 1, 0), 'C load offset')
        if t[0] not in ('int', 'ptr'):
            raise Unsupported('C load of aggregate %r' % (t,))
        v = ex.mem.read(p.obj, off, n)
        if v is None:
            return NIL if t[0] == 'ptr' else (False if t == ('int', 1) else 0)
        if t[0] == 'ptr':
            if isinstance(v, int) and v == 0:
                return NIL
            return v
        if t[1] == 1:
            if isinstance(v, int) and not isinstance(v, bool):
                return v & 1 != 0
            if not isinstance(v, bool) and z3.is_bv(v):
                return simp(z3.Extract(0, 0, v) == 1)
            return v
        if isinstance(v, bool):
            return int(v)
        if not isinstance(v, (int, Ptr)) and z3.is_bool(v):
            return simp(tobv(v, t[1]))
        return v

    def store(self, ex, p, ty, v):
        if not isinstance(p, Ptr):
            raise Unsupported('C store through %r' % (p,))
        if p.obj is None:
            raise GoPanic('c-null-deref', 'store')
        n = self.mod.sizeof(ty)
        off = p.off
        if not isinstance(off, int):
            off = ex.concretize(off, 0, max(p.obj.size - 1, 0), 'C store offset')
        t = self.mod.resolve(ty)
        if t == ('int', 1):
            v = int(v) if isinstance(v, bool) else simp(tobv(v, 8))
        ex.mem.write(p.obj, off, n, v)

    # ---- calls
    def call_from_go(self, ex, goname, args, ins):
        name = '@' + goname.split('._Cfunc_', 1)[1]
        cargs = []
        for a in args:
            if isinstance(a, bool):
                a = int(a)
            cargs.append(a)
        f = self.mod.funcs.get(name)
        if f is not None and name not in self.stubs:
            # adapt integer widths to the C parameter types
            for k, (pt, pn) in enumerate(f['params']):
                t = self.mod.resolve(pt)
                if t[0] == 'int' and k < len(cargs) and not isinstance(cargs[k], Ptr):
                    v = cargs[k]
                    if isinstance(v, int):
                        cargs[k] = v & mask(t[1])
                    elif z3.is_bv(v) and v.size() != t[1]:
                        cargs[k] = int_convert(v, v.size(), False, t[1])
        r = self.call(ex, name, cargs)
        if isinstance(r, bool):
            return r
        return r

    def call(self, ex, name, args, I=None):
        if self.trace_calls is not None:
            self.trace_calls.append(name)
        ex.called.add('C:' + name[1:])
        st = self.stubs.get(name)
        if st is not None:
            return st(self, ex, args, I)
        f = self.mod.funcs.get(name)
        if f is None:
            raise Unsupported('no C body/stub for ' + name)
        return self.run(ex, f, args)

    def run(self, ex, f, args):
        fr = {}
        for (pt, pn), a in zip(f['params'], args):
            fr[pn] = a
        ex.depth += 1
        if ex.depth > 400:
            raise Unsupported('C call depth')
        allocas = []
        stk = ex.pstate.setdefault('cfun_stack', [])
        stk.append(f['name'])
        try:
            cur = f['entry']
            prev = None
            blocks = f['blocks']
            while True:
                nxt = None
                insl = blocks[cur]
                # phis first, simultaneously
                ph = {}
                for I in insl:
                    if I['op'] != 'phi':
                        break
                    for (v, lab) in I['inc']:
                        if lab == prev:
                            ph[I['dst']] = self.val(ex, fr, v)
                            break
                    else:
                        raise Unsupported('phi without matching pred')
                fr.update(ph)
                for I in insl:
                    op = I['op']
                    if op == 'phi':
                        continue
                    ex.stats.instrs += 1
                    ex.path_instrs += 1
                    if ex.path_instrs > ex.max_path_instrs:
                        raise Unsupported('instruction budget exceeded in C ' + f['name'])
                    r = self.step(ex, f, fr, I, op, allocas)
                    if op == 'ret':
                        return r
                    if op in ('br', 'switch'):
                        nxt = r
                if nxt is None:
                    raise Unsupported('C block without terminator: %s in %s' % (cur, f['name']))
                prev, cur = cur, nxt
        finally:
            ex.depth -= 1
            stk.pop()
            for o in allocas:
                o.freed = True

    def step(self, ex, f, fr, I, op, allocas):
        V = lambda v: self.val(ex, fr, v)
        mod = self.mod
        if op == 'load':
            fr[I['dst']] = self.load(ex, V(I['p']), I['ty'])
            return
        if op == 'store':
            self.store(ex, V(I['p']), I['ty'], V(I['v']))
            return
        if op == 'binop':
            fr[I['dst']] = self.binop(ex, I, V(I['a']), V(I['b']))
            return
        if op == 'icmp':
            fr[I['dst']] = self.icmp(ex, I, V(I['a']), V(I['b']))
            return
        if op == 'br':
            if I['c'] is None:
                return I['t']
            c = V(I['c'])
            return I['t'] if ex.decide(c) else I['f']
        if op == 'getelementptr':
            fr[I['dst']] = self.gep(ex, V(I['p']), I['bt'], I['idx'], fr)
            return
        if op == 'alloca':
            n = 1
            if I['n'] is not None:
                n = V(I['n'])
                if not isinstance(n, int):
                    n = ex.concretize(n, 0, 1 << 16, 'alloca count')
            o = ex.mem.alloc(mod.sizeof(I['ty']) * n, False, 'alloca:%s%s' % (f['name'], I['dst']), 'c')
            allocas.append(o)
            fr[I['dst']] = Ptr(o, 0)
            return
        if op == 'call':
            if I.get('asm'):
                fr[I['dst']] = 0
                return
            args = [V(a) for (_, a) in I['args']]
            fn = I['fn']
            if fn[0] == 'g':
                name = fn[1]
            else:
                fp = V(fn)
                if not isinstance(fp, Ptr) or fp.obj is None or not fp.obj.meta or 'fn' not in fp.obj.meta:
                    raise Unsupported('indirect call through %r' % (fp,))
                name = fp.obj.meta['fn']
            r = self.call(ex, name, args, I)
            if I['dst'] is not None:
                fr[I['dst']] = r
            return
        if op in ('zext', 'sext', 'trunc'):
            v = V(I['v'])
            w1 = mod.resolve(I['st'])[1]; w2 = mod.resolve(I['tt'])[1]
            if w1 == 1:
                if isinstance(v, bool):
                    v = int(v)
                elif not isinstance(v, int):
                    v = tobv(v, 1) if z3.is_bv(v) else z3.If(v, z3.BitVecVal(1, 1), z3.BitVecVal(0, 1))
            if isinstance(v, Ptr):
                fr[I['dst']] = v
                return
            r = int_convert(v, w1, op == 'sext', w2)
            if w2 == 1:
                r = (r & 1 != 0) if isinstance(r, int) else simp(r == 1)
            fr[I['dst']] = r
            return
        if op in ('bitcast', 'ptrtoint', 'inttoptr'):
            v = V(I['v'])
            if op == 'inttoptr' and isinstance(v, int):
                if v == 0:
                    v = NIL
                else:
                    raise Unsupported('inttoptr of integer')
            fr[I['dst']] = v
            return
        if op == 'ret':
            return None if I['v'] is None else V(I['v'])
        if op == 'select':
            c = V(I['c']); a = V(I['a']); b = V(I['b'])
            if isinstance(c, bool):
                fr[I['dst']] = a if c else b
            elif isinstance(a, Ptr) or isinstance(b, Ptr):
                fr[I['dst']] = a if ex.decide(c) else b
            else:
                t = mod.resolve(I['ty'])
                fr[I['dst']] = ite(c, a, b, t[1] if t[0] == 'int' else None)
            return
        if op == 'switch':
            v = V(I['v'])
            w = mod.resolve(I['ty'])[1]
            for (cv, lab) in I['cases']:
                if ex.decide(int_binop('==', v, cv[1], w, False)):
                    return lab
            return I['default']
        if op == 'unreachable':
            raise GoPanic('c-unreachable', f['name'])
        raise Unsupported('llvm instruction %s: %s' % (op, I['src']))

    def binop(self, ex, I, a, b):
        t = self.mod.resolve(I['ty'])
        w = t[1]
        o = I['bop']
        if w == 1:
            if o in ('&', '|', '^'):
                if o == '&': return band(a, b)
                if o == '|': return bor(a, b)
                return bnot(ex.bool_eq(a, b))
            a = int(a) if isinstance(a, bool) else a
            b = int(b) if isinstance(b, bool) else b
        if isinstance(a, Ptr) or isinstance(b, Ptr):
            if o == '+' and isinstance(a, Ptr) and not isinstance(b, Ptr):
                return a.add(b)
            if o == '+' and isinstance(b, Ptr) and not isinstance(a, Ptr):
                return b.add(a)
            if o == '-' and isinstance(a, Ptr) and isinstance(b, Ptr) and a.obj is b.obj:
                return int_binop('-', a.off, b.off, 64, False)
            if o == '-' and isinstance(a, Ptr) and not isinstance(b, Ptr):
                return a.add(int_binop('-', 0, b, 64, False) if not isinstance(b, int) else -signed(b, 64))
            raise Unsupported('C pointer arithmetic %s' % o)
        sg = False
        if o.endswith('u') or o.endswith('s'):
            sg = o.endswith('s')
            o = o[:-1]
        if o in ('/', '%'):
            if ex.decide(int_binop('==', b, 0, w, False)):
                raise GoPanic('c-div-by-zero', I['src'])
        nowrap = getattr(ex, 'c_mul_nowrap', None)
        if nowrap and o == '*' and w == 64 and not (isinstance(a, int) and isinstance(b, int)):
            stk = ex.pstate.get('cfun_stack') or ['']
            if stk[-1] in nowrap:
                # lemma mode: the unsigned 64-bit product must equal the integer product. Upper bounds proved
                # on this path (factor <= 255 by a linear solver query, products by arithmetic) settle the
                # common case; the solver's bvumul_noovfl decides the rest.
                ub = ex.pstate.setdefault('ubound', {})
                def bound(x):
                    if isinstance(x, int):
                        return x
                    k = x.get_id()
                    if k not in ub:
                        ub[k] = 255 if ex.must(z3.ULE(x, z3.BitVecVal(255, 64))) else (1 << 64) - 1
                    return ub[k]
                ua, ubb = bound(a), bound(b)
                r = int_binop(o, a, b, w, sg, w)
                ex.events.append(('assert', 'no 64-bit wrap-around in ' + stk[-1]))
                ex.pstate.setdefault('mul_log', []).append((a, b, r))
                if ua * ubb < (1 << 64):
                    ex.stats.assert_queries += 1
                    if not isinstance(r, int):
                        ub[r.get_id()] = ua * ubb
                else:
                    ex.verif_assert(z3.BVMulNoOverflow(tobv(a, 64), tobv(b, 64), False), 'unsigned 64-bit product in %s equals the integer product (no wrap-around)' % stk[-1][1:])
                return r
        return int_binop(o, a, b, w, sg, w)

    def icmp(self, ex, I, a, b):
        t = self.mod.resolve(I['ty'])
        cc, sg = ICMP[I['cc']]
        if isinstance(a, Ptr) or isinstance(b, Ptr):
            if isinstance(a, int) and a == 0:
                a = NIL
            if isinstance(b, int) and b == 0:
                b = NIL
            if not (isinstance(a, Ptr) and isinstance(b, Ptr)):
                raise Unsupported('C compare pointer with integer')
            if cc == '==':
                return ex.ptr_eq(a, b)
            if cc == '!=':
                return bnot(ex.ptr_eq(a, b))
            if a.obj is b.obj:
                return int_binop(cc, a.off, b.off, 64, False)
            raise Unsupported('C ordered compare of pointers to different objects')
        w = t[1] if t[0] == 'int' else 64
        if w == 1:
            if cc == '==': return ex.bool_eq(a, b)
            if cc == '!=': return bnot(ex.bool_eq(a, b))
            a = int(a) if isinstance(a, bool) else tobv(a, 1)
            b = int(b) if isinstance(b, bool) else tobv(b, 1)
        return int_binop(cc, a, b, w, sg)
