# L2 contract stubs (uninterpreted level) for the curve operations the DKG / threshold Go code
# calls: every group operation is an uninterpreted function of the bytes / coordinates it reads, so
# equal inputs give equal outputs and the solver is free to choose every verdict (valid / invalid
# vector, matching / non-matching share). Bounds of every C pointer argument are checked against the
# object passed from Go (memory safety at the cgo boundary). Harness message builders constrain
# the verdict functions per message kind (see harness/crypto/zz_verif_dkg.go).
import z3
from .core import *
from .cstubs import rd, wr, b2l

BV = z3.BitVecSort
E2W = 64     # abstract G2 element identifier; memory holds 36 limbs LIMB2(id, k)
LIMB2 = z3.Function('g2_limb', BV(E2W), BV(8), BV(64))
PTID = z3.Function('g2_id_of_coords', BV(2304), BV(E2W))
ISINF = z3.Function('g2_is_infinity', BV(E2W), z3.BoolSort())
VEC_OK = z3.Function('g2vec_status', BV(768), BV(32))              # per point: 0 VALID else error code
PT_DEC = z3.Function('g2_decode', BV(768), BV(E2W))
PT_ENC = z3.Function('g2_encode', BV(E2W), BV(768))
IMG = z3.Function('g2_poly_image', BV(E2W), BV(E2W), BV(8), BV(E2W))   # Horner step: IMG(acc, A_k, x) = x*acc + A_k
CHK = z3.Function('g2_check_log', BV(256), BV(E2W), z3.BoolSort())
G2MUL = z3.Function('g2_mult_gen', BV(256), BV(E2W))
FRIMG = z3.Function('fr_poly_step', BV(256), BV(256), BV(8), BV(256))  # Horner step in F_r
FRSUM = z3.Function('fr_add', BV(256), BV(256), BV(256))
E2ADD = z3.Function('e2_add', BV(E2W), BV(E2W), BV(E2W))
E2AFF = z3.Function('e2_affine', BV(E2W), BV(E2W))
E2EQ = z3.Function('e2_equal', BV(E2W), BV(E2W), z3.BoolSort())
MAPFR = z3.Function('map_bytes_to_fr', BV(8), BV(2048), BV(256))
INFTY2 = 0   # identifier 0 is the point at infinity (memory with Z = 0)

def rdpt(ex, p):
    """identifier of the G2 element stored at p (36 limbs)"""
    if not isinstance(p, Ptr) or p.obj is None:
        raise GoPanic('c-null-deref', 'point read')
    off = p.off
    if not isinstance(off, int):
        off = ex.concretize(off, 0, p.obj.size, 'point pointer')
    ex.mem.check(p.obj, off, 288, 'read')
    ls = []
    for k in range(36):
        v = ex.mem.read(p.obj, off + 8 * k, 8)
        ls.append(0 if v is None else v)
    l0 = ls[0]
    if not isinstance(l0, int) and z3.is_app(l0) and l0.decl().eq(LIMB2):
        ident = l0.arg(0)
        ok = True
        for k in range(1, 36):
            l = ls[k]
            if isinstance(l, int) or not (z3.is_app(l) and l.decl().eq(LIMB2) and l.arg(0).eq(ident) and l.arg(1).as_long() == k):
                ok = False
                break
        if ok:
            return ident
    if all(isinstance(l, int) and l == 0 for l in ls[24:]):
        return z3.BitVecVal(INFTY2, E2W)
    return PTID(simp(z3.Concat(*[tobv(l, 64) for l in reversed(ls)])))

def wrpt(ex, p, ident):
    if not isinstance(p, Ptr) or p.obj is None:
        raise GoPanic('c-null-deref', 'point write')
    off = p.off
    if not isinstance(off, int):
        off = ex.concretize(off, 0, p.obj.size, 'point pointer')
    ex.mem.check(p.obj, off, 288, 'write')
    ident = simp(ident)
    if isinstance(ident, int):
        if ident != INFTY2:
            raise Unsupported('concrete point id')
        for k in range(36):
            ex.mem.write(p.obj, off + 8 * k, 8, 0)
        return
    for k in range(36):
        ex.mem.write(p.obj, off + 8 * k, 8, LIMB2(ident, z3.BitVecVal(k, 8)))

def st_e2_is_infty(L, ex, a, I):
    ident = rdpt(ex, a[0])
    if z3.is_bv_value(ident):
        return ident.as_long() == INFTY2
    return ISINF(ident)

def rdbytes(ex, p, n):
    """n bytes at C pointer p as one big-endian bit-vector; bounds-checked"""
    if not isinstance(p, Ptr) or p.obj is None:
        raise GoPanic('c-null-deref', 'byte read')
    off = p.off
    if not isinstance(off, int):
        off = ex.concretize(off, 0, p.obj.size, 'byte pointer')
    ex.mem.check(p.obj, off, n, 'read')
    bs = [ex.mem.byte_at(p.obj, off + i) for i in range(n)]
    return simp(z3.Concat(*[tobv(b, 8) for b in bs])) if n > 1 else tobv(bs[0], 8)

def wrbytes(ex, p, n, v):
    off = p.off
    if not isinstance(off, int):
        off = ex.concretize(off, 0, p.obj.size, 'byte pointer')
    ex.mem.check(p.obj, off, n, 'write')
    for i in range(n):
        ex.mem.write(p.obj, off + i, 1, simp(z3.Extract(8 * (n - 1 - i) + 7, 8 * (n - 1 - i), v)))

def st_g2_vector_read_bytes(L, ex, a, I):
    A, src, n = a
    if not isinstance(n, int):
        raise Unsupported('symbolic vector length')
    n = signed(n, 32)
    for i in range(n):
        B = rdbytes(ex, src.add(96 * i), 96)
        st = VEC_OK(B)
        if not ex.decide(st == 0):
            # what the real E2_read_bytes leaves in A[i] depends on where it failed: nothing for a bad
            # encoding (header/length), the full point for a point outside G2, partial data otherwise
            if ex.decide(st == 5):
                wrpt(ex, A.add(288 * i), PT_DEC(B))
            elif not ex.decide(st == 2):
                wrpt(ex, A.add(288 * i), z3.BitVec('partial_point!%d' % ex.fresh_n, E2W))
                ex.fresh_n += 1
            return simp(st)
        wrpt(ex, A.add(288 * i), PT_DEC(B))
    return 0

def st_e2_vector_write_bytes(L, ex, a, I):
    out, A, n = a
    n = signed(n, 32)
    for i in range(n):
        wrbytes(ex, out.add(96 * i), 96, PT_ENC(rdpt(ex, A.add(288 * i))))

def st_e2_polynomial_images(L, ex, a, I):
    y, len_y, A, degree = a
    len_y = signed(len_y, 32); degree = signed(degree, 32)
    coeffs = [rdpt(ex, A.add(288 * k)) for k in range(degree + 1)]
    for i in range(len_y):
        acc = z3.BitVecVal(INFTY2, E2W)
        for k in range(degree, -1, -1):
            acc = IMG(acc, coeffs[k], z3.BitVecVal(i + 1, 8))
        wrpt(ex, y.add(288 * i), acc)

def st_g2_check_log(L, ex, a, I):
    x = tobv(rd(ex, a[0], 4), 256)
    return CHK(x, rdpt(ex, a[1]))

def st_g2_mult_gen(L, ex, a, I):
    x = tobv(rd(ex, a[1], 4), 256)
    # g2^x is the identity iff x = 0 (x is reduced mod r)
    ex.add(ISINF(G2MUL(x)) == (x == 0))
    wrpt(ex, a[0], G2MUL(x))

def st_fr_polynomial_image_write(L, ex, a, I):
    out, y, ap, degree, x = a
    degree = signed(degree, 32)
    acc = z3.BitVecVal(0, 256)
    for k in range(degree, -1, -1):
        acc = FRIMG(acc, tobv(rd(ex, ap.add(32 * k), 4), 256), tobv(x, 8))
    # images are reduced field elements; a zero image of a random polynomial has probability 2^-255 and is excluded
    ex.add(z3.And(acc != 0, z3.ULT(acc, z3.BitVecVal(0x73eda753299d7d483339d80809a1d80553bda402fffe5bfeffffffff00000001, 256))))
    wrbytes(ex, out, 32, acc)
    if isinstance(y, Ptr) and y.obj is not None:
        wrpt(ex, y, G2MUL(acc))

def st_fr_sum_vector(L, ex, a, I):
    out, x, n = a
    n = signed(n, 32)
    acc = z3.BitVecVal(0, 256)
    for i in range(n):
        acc = FRSUM(acc, tobv(rd(ex, x.add(32 * i), 4), 256))
    wr(ex, out, 4, acc)

def st_e2_sum_vector_to_affine(L, ex, a, I):
    out, x, n = a
    n = signed(n, 32)
    acc = z3.BitVecVal(INFTY2, E2W)
    for i in range(n):
        acc = E2ADD(acc, rdpt(ex, x.add(288 * i)))
    wrpt(ex, out, E2AFF(acc))

def st_e2_is_equal(L, ex, a, I):
    p, q = rdpt(ex, a[0]), rdpt(ex, a[1])
    if p.eq(q):
        return True
    return E2EQ(p, q)

def st_map_bytes_to_fr(L, ex, a, I):
    out, inp, n = a
    n = signed(n, 32)
    if n <= 0 or n > 256:
        raise Unsupported('map_bytes_to_Fr length %d' % n)
    B = rdbytes(ex, inp, n)
    v = MAPFR(z3.BitVecVal(n & 0xff, 8), z3.ZeroExt(2048 - 8 * n, B))
    ex.add(z3.ULT(v, z3.BitVecVal(0x73eda753299d7d483339d80809a1d80553bda402fffe5bfeffffffff00000001, 256)))
    wr(ex, out, 4, v)
    return simp(v == 0)

def install(L):
    S = L.stubs
    S['@G2_vector_read_bytes'] = st_g2_vector_read_bytes
    S['@E2_vector_write_bytes'] = st_e2_vector_write_bytes
    S['@E2_polynomial_images'] = st_e2_polynomial_images
    S['@G2_check_log'] = st_g2_check_log
    S['@G2_mult_gen'] = st_g2_mult_gen
    S['@G2_mult_gen_to_affine'] = st_g2_mult_gen
    S['@Fr_polynomial_image_write'] = st_fr_polynomial_image_write
    S['@Fr_sum_vector'] = st_fr_sum_vector
    S['@E2_sum_vector_to_affine'] = st_e2_sum_vector_to_affine
    S['@E2_is_equal'] = st_e2_is_equal
    S['@map_bytes_to_Fr'] = st_map_bytes_to_fr
    S['@E2_is_infty'] = st_e2_is_infty

TRUSTED = ['G2_vector_read_bytes: per 96-byte chunk an uninterpreted status and an uninterpreted decoded point; stops at the first invalid chunk (as the C loop does)',
           'E2_polynomial_images / Fr_polynomial_image_write: Horner evaluation as nested uninterpreted steps (same inputs give same outputs)',
           'G2_check_log, G2_mult_gen(_to_affine), E2_is_equal, Fr_sum_vector, E2_sum_vector_to_affine, map_bytes_to_Fr: uninterpreted functions of their inputs',
           'every C pointer argument is bounds-checked against the Go object it points into']
