# Stubs: harness primitives and models of library functions that are not executed.
# Every stub is part of the trusted base and is listed in evidence by the checks.
import z3
from .core import *
from . import core

PKGS = ['github.com/onflow/crypto', 'github.com/onflow/crypto/hash', 'github.com/onflow/crypto/random']

def install(ex):
    S = ex.stubs
    for p in PKGS:
        S[p + '.nondetU64'] = lambda ex, a, i: ex.nondet('u64', 64)
        S[p + '.nondetU32'] = lambda ex, a, i: ex.nondet('u32', 32)
        S[p + '.nondetU16'] = lambda ex, a, i: ex.nondet('u16', 16)
        S[p + '.nondetByte'] = lambda ex, a, i: ex.nondet('u8', 8)
        S[p + '.nondetInt'] = lambda ex, a, i: ex.nondet('int', 64)
        S[p + '.nondetBool'] = lambda ex, a, i: simp(ex.nondet('bool', 8) != 0)
        S[p + '.nondetBytes'] = nondet_bytes
        S[p + '.nondetRange'] = nondet_range
        S[p + '.verifAssume'] = verif_assume
        S[p + '.verifAssert'] = verif_assert
        S[p + '.verifReach'] = verif_reach
        S[p + '.verifConcretize'] = verif_concretize
        S[p + '.verifNativeRepeat'] = lambda ex, a, i: 1
        S[p + '.verifNative'] = lambda ex, a, i: False
        S[p + '.verifFailed'] = lambda ex, a, i: False
        S[p + '.verifEffectsBegin'] = effects_begin
        S[p + '.verifEffectsEnd'] = effects_end
        S[p + '.verifParallel'] = lambda ex, a, i: ex.call_value(a[1], [], i)
        S[p + '.verifSameState'] = lambda ex, a, i: True
        S[p + '.bOr'] = lambda ex, a, i: bor(a[0], a[1])
        S[p + '.bAnd'] = lambda ex, a, i: band(a[0], a[1])
        S[p + '.bImplies'] = lambda ex, a, i: bor(bnot(a[0]), a[1])
        S[p + '.bIte64'] = lambda ex, a, i: ite(a[0], a[1], a[2], 64)
    S['errors.New'] = errors_new
    S['errors.Is'] = errors_is
    S['errors.As'] = errors_as
    S['errors.Unwrap'] = errors_unwrap
    S['fmt.Errorf'] = fmt_errorf
    S['fmt.Sprintf'] = fmt_sprintf
    S['fmt.Sprint'] = fmt_sprintf
    S['fmt.Println'] = lambda ex, a, i: (0, None)
    S['fmt.Printf'] = lambda ex, a, i: (0, None)
    S[('method', '*errors.errorString', 'Error')] = err_error
    S[('method', '*fmt.wrapError', 'Error')] = err_error
    S[('method', '*fmt.wrapError', 'Unwrap')] = lambda ex, a, i: a[0].obj.meta['wraps'][0]
    S['crypto/rand.Read'] = rand_read
    for m in ('Lock', 'Unlock', 'RLock', 'RUnlock'):
        S['(*sync.RWMutex).' + m] = mk_rwmutex(m)
    S['(*sync.Mutex).Lock'] = mk_rwmutex('Lock')
    S['(*sync.Mutex).Unlock'] = mk_rwmutex('Unlock')
    for pk in PKGS:
        for m in ('Lock', 'Unlock', 'RLock', 'RUnlock'):
            S['(*%s.verifRWMutex).%s' % (pk, m)] = mk_rwmutex(m)
    from . import sched as _sched
    _sched.install(ex)
    S['(*sync.Pool).Get'] = pool_get
    S['(*sync.Pool).Put'] = pool_put
    S['runtime.KeepAlive'] = lambda ex, a, i: None
    S['internal/bytealg.MakeNoZero'] = lambda ex, a, i: ex.make_bytes([0] * a[0], 'makenozero')

# ---------------------------------------------------------------- harness

def nondet_bytes(ex, a, ins):
    n = a[0]
    if not isinstance(n, int):
        n = ex.concretize(n, 0, 4096, 'nondetBytes length')
    return ex.sym_bytes(signed(n, 64), 'u8', 'nondetBytes')

def nondet_range(ex, a, ins):
    lo, hi = signed(a[0], 64), signed(a[1], 64)
    v = ex.nondet('range', 64)
    cands = list(range(lo, hi + 1))
    i = ex.choose([v == z3.BitVecVal(c & mask(64), 64) for c in cands])
    return cands[i] & mask(64)

def effects_begin(ex, a, ins):
    """start the write-effect log: every object (and hash stream) that exists now counts as shared"""
    ex.effects = []
    ex.effects_epoch = ex.mem.n
    ex.mem.writes = []
    for st in ex.pstate.get('streams', []):
        st.shared = True
    return None

def effects_end(ex, a, ins):
    """number of writes to objects that existed at verifEffectsBegin (stores by Go or C code, and declared
    effects of stubs); the written objects are listed in the path events"""
    n = 0
    seen = set()
    for (obj, off, k) in (ex.mem.writes or []):
        if obj.id <= ex.effects_epoch:
            n += 1
            key = (obj.label, off)
            if key not in seen and len(seen) < 6:
                seen.add(key)
                ex.events.append(('effect', 'store to %s+%d (%d bytes, %s object)' % (obj.label, off, k, obj.lang)))
    for (kind, what) in ex.effects or []:
        n += 1
        ex.events.append(('effect', '%s: %s' % (kind, what)))
    ex.mem.writes = None
    ex.effects = None
    for st in ex.pstate.get('streams', []):
        st.shared = False
    return n

def pool_get(ex, a, ins):
    """sync.Pool.Get: a fresh value from New (reuse of earlier values only removes allocations: a value obtained
    from Get is exclusively owned until it is Put back)"""
    p = a[0]
    t = ex.prog.T('sync.Pool')
    f = {x['name']: x for x in t['fields']}['New']
    fn = ex._load(p.obj, p.off + f['off'], f['type'])
    if fn is None:
        return None
    return ex.call_value(fn, [], ins)

def pool_put(ex, a, ins):
    """sync.Pool.Put: ownership of the value passes to the pool -- another goroutine may Get it at once. Every later
    store to the memory it refers to by the goroutine that Put it is a use after release (checked in Memory.write)."""
    v = a[1]
    tid = None
    if isinstance(v, Iface):
        tid, v = v.tid, v.val
    objs = []
    if isinstance(v, Ptr) and v.obj is not None:
        objs.append(v.obj)
        # a pooled *[]byte / *T: what it points to is released as well
        try:
            t = ex.prog.T(tid) if tid else None
            if t and t['kind'] == 'pointer':
                inner = ex._load(v.obj, v.off, t['elem'])
                if isinstance(inner, Slice) and inner.ptr.obj is not None:
                    objs.append(inner.ptr.obj)
                elif isinstance(inner, Ptr) and inner.obj is not None:
                    objs.append(inner.obj)
        except Exception:
            pass
    elif isinstance(v, Slice) and v.ptr.obj is not None:
        objs.append(v.ptr.obj)
    for o in objs:
        o.meta = dict(o.meta or {}, pooled=ins.get('pos', '') if ins else 'Put')
    return None

def verif_assume(ex, a, ins):
    c = a[0]
    if c is True:
        return None
    if c is False:
        raise PathEnd('assume_false')
    ex.assumes.append(ins.get('pos', ''))
    if not ex.feasible(c):
        raise PathEnd('assume_false')
    ex.add(c)
    return None

def verif_assert(ex, a, ins):
    msg = a[1].py() if isinstance(a[1], Str) else str(a[1])
    ex.events.append(('assert', msg))
    ex.verif_assert(a[0], msg + ' @' + ins.get('pos', '').split('/')[-1])
    return None

def verif_reach(ex, a, ins):
    ex.events.append(('reach', a[0].py()))
    return None

def verif_concretize(ex, a, ins):
    """verifConcretize(v uint64, lo, hi) forks v over lo..hi and returns the concrete value"""
    return ex.concretize(a[0], signed(a[1], 64), signed(a[2], 64), 'verifConcretize')

# ---------------------------------------------------------------- errors / fmt

def _newerr(ex, tid, **meta):
    o = ex.mem.alloc(16, True, 'err')
    o.meta = meta
    return Iface(tid, Ptr(o, 0))

def errors_new(ex, a, ins):
    return _newerr(ex, '*errors.errorString', text=a[0])

def _variadic_args(ex, sl):
    if sl is None or not isinstance(sl, Slice) or sl.len == 0:
        return []
    out = []
    off = sl.ptr.off
    for k in range(sl.len):
        v = ex.mem.read(sl.ptr.obj, off + 16 * k, 16)
        out.append(v)
    return out

def fmt_errorf(ex, a, ins):
    fmtv = a[0]
    args = _variadic_args(ex, a[1]) if len(a) > 1 else []
    wraps = []
    if isinstance(fmtv, Str) and fmtv.concrete() and b'%w' in bytes(fmtv.b):
        # the operands matched by %w: find error-typed args (interfaces implementing Error)
        for v in args:
            if isinstance(v, Iface) and (ex.prog.methods.get(v.tid, {}).get('Error') or ('method', v.tid, 'Error') in ex.stubs):
                wraps.append(v)
    if wraps:
        return _newerr(ex, '*fmt.wrapError', text=fmtv, args=args, wraps=wraps)
    return _newerr(ex, '*errors.errorString', text=fmtv, args=args)

def fmt_sprintf(ex, a, ins):
    f = a[0]
    if isinstance(f, Str) and f.concrete():
        return Str(b'<fmt:' + bytes(f.b) + b'>')
    return Str(b'<fmt>')

def err_error(ex, a, ins):
    t = a[0].obj.meta.get('text')
    return t if isinstance(t, Str) else Str(b'<err>')

def _unwrap(ex, e):
    if e is None:
        return None
    if e.tid == '*fmt.wrapError':
        return e.val.obj.meta['wraps'][0]
    ms = ex.prog.methods.get(e.tid, {})
    if 'Unwrap' in ms:
        r = ex.call(ms['Unwrap'], [e.val])
        if isinstance(r, Iface) or r is None:
            return r
    return None

def errors_unwrap(ex, a, ins):
    return _unwrap(ex, a[0])

def errors_is(ex, a, ins):
    e, target = a
    n = 0
    while e is not None and n < 50:
        if target is not None and e.tid == target.tid:
            eq = ex.equal(e.val, target.val, e.tid)
            if ex.decide(eq):
                return True
        e = _unwrap(ex, e)
        n += 1
    return False

def errors_as(ex, a, ins):
    e, target = a
    if target is None:
        raise GoPanic('explicit', 'errors: target cannot be nil')
    ptid = target.tid
    elem = ex.prog.T(ptid)['elem']
    ekind = ex.prog.kind(elem)
    n = 0
    while e is not None and n < 50:
        if ekind == 'interface':
            if ex.implements(e.tid, elem):
                ex.store(target.val, elem, e)
                return True
        elif e.tid == elem:
            ex.store(target.val, elem, e.val)
            return True
        e = _unwrap(ex, e)
        n += 1
    return False

# ---------------------------------------------------------------- misc

def rand_read(ex, a, ins):
    sl = a[0]
    ex.write_bytes(sl, [ex.nondet('rand', 8) for _ in range(sl.len)])
    return (sl.len, None)

def mk_rwmutex(m):
    def f(ex, a, ins):
        p = a[0]
        if getattr(ex, 'sched', None) is not None:
            ex.sched.mutex_op(m, (p.obj.id, p.off))
            return None
        st = p.obj.meta
        if st is None:
            st = p.obj.meta = {}
        key = ('mu', p.off)
        cur = st.get(key, 0)      # 0 free, -1 writer, k>0 readers
        log = getattr(ex, 'locklog', None)
        if log is not None:
            log.append((m, p.obj.label, p.off))
        if m == 'Lock':
            if cur != 0:
                raise GoPanic('deadlock', 'Lock on held mutex')
            st[key] = -1
        elif m == 'Unlock':
            if cur != -1:
                raise GoPanic('explicit', 'sync: Unlock of unlocked mutex')
            st[key] = 0
        elif m == 'RLock':
            if cur == -1:
                raise GoPanic('deadlock', 'RLock on write-held mutex')
            st[key] = cur + 1
        elif m == 'RUnlock':
            if cur <= 0:
                raise GoPanic('explicit', 'sync: RUnlock of unlocked mutex')
            st[key] = cur - 1
        return None
    return f
