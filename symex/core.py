# symex core: a path-forking symbolic executor for Go SSA (dumped by gossa) with a
# byte-addressed object memory shared with the LLVM-IR front-end (llvm.py).
# Deciding engine: z3 (in-process, incremental). See DESIGN.md section 2.
import json, sys, time, itertools, os
import os
import z3

sys.setrecursionlimit(100000)

# ----------------------------------------------------------------------------
# exceptions

class Unsupported(Exception):
    pass

class GoPanic(Exception):
    def __init__(self, kind, msg='', pos=''):
        Exception.__init__(self, '%s: %s @%s' % (kind, msg, pos))
        self.kind, self.msg, self.pos = kind, msg, pos
        self.value = None

class PathEnd(Exception):
    """path terminated early (assume false / infeasible / assertion failed)"""
    def __init__(self, status, info=None):
        Exception.__init__(self, status)
        self.status, self.info = status, info

# ----------------------------------------------------------------------------
# values

class Ptr:
    __slots__ = ('obj', 'off')
    def __init__(self, obj, off=0):
        self.obj, self.off = obj, off
    def isnil(self):
        return self.obj is None
    def add(self, d):
        if isinstance(d, int) and isinstance(self.off, int):
            return Ptr(self.obj, self.off + d)
        return Ptr(self.obj, z3.simplify(tobv(self.off, 64) + tobv(d, 64)))
    def __repr__(self):
        return 'Ptr(%s+%s)' % (self.obj.label if self.obj else 'nil', self.off)

NIL = Ptr(None, 0)

class Slice:
    __slots__ = ('ptr', 'len', 'cap')
    def __init__(self, ptr, ln, cap):
        self.ptr, self.len, self.cap = ptr, ln, cap
    def __repr__(self):
        return 'Slice(%r,%s,%s)' % (self.ptr, self.len, self.cap)

NILSLICE = Slice(NIL, 0, 0)

class Str:
    __slots__ = ('b',)
    def __init__(self, b=()):
        self.b = tuple(b)
    def concrete(self):
        return all(isinstance(x, int) for x in self.b)
    def py(self):
        return bytes(self.b).decode('utf-8', 'replace') if self.concrete() else '<sym str len %d>' % len(self.b)
    def __repr__(self):
        return 'Str(%r)' % (self.py(),)

class Agg(list):
    pass

class Iface:
    __slots__ = ('tid', 'val')
    def __init__(self, tid, val):
        self.tid, self.val = tid, val
    def __repr__(self):
        return 'Iface(%s,%r)' % (self.tid, self.val)

class Closure:
    __slots__ = ('fn', 'bindings')
    def __init__(self, fn, bindings=()):
        self.fn, self.bindings = fn, list(bindings)
    def __repr__(self):
        return 'Closure(%s)' % self.fn

class MapObj:
    __slots__ = ('entries', 'label')
    def __init__(self):
        self.entries = []   # list of [key, val]
        self.label = 'map'

class MapIter:
    def __init__(self, items):
        self.items = items

class Abstract:
    """opaque value produced/consumed by stubs"""
    def __init__(self, kind, **kw):
        self.kind = kind
        self.__dict__.update(kw)
    def __repr__(self):
        return 'Abs(%s)' % self.kind

# ----------------------------------------------------------------------------
# bit-vector helpers (python int = concrete, unsigned, masked)

def mask(w):
    return (1 << w) - 1

def tobv(v, w):
    if isinstance(v, bool):
        return z3.BitVecVal(1 if v else 0, w)
    if isinstance(v, int):
        return z3.BitVecVal(v & mask(w), w)
    if z3.is_bool(v):
        return z3.If(v, z3.BitVecVal(1, w), z3.BitVecVal(0, w))
    if v.size() != w:
        raise Unsupported('width mismatch %d vs %d: %s' % (v.size(), w, v))
    return v

def tobool(v):
    if isinstance(v, bool):
        return z3.BoolVal(v)
    return v

def simp(e):
    if isinstance(e, (int, bool)):
        return e
    e = z3.simplify(e)
    if z3.is_bv_value(e):
        return e.as_long()
    if z3.is_true(e):
        return True
    if z3.is_false(e):
        return False
    return e

def signed(v, w):
    v &= mask(w)
    return v - (1 << w) if v >> (w - 1) else v

def bnot(b):
    if isinstance(b, bool):
        return not b
    return simp(z3.Not(b))

def band(a, b):
    if a is False or b is False:
        return False
    if a is True:
        return b
    if b is True:
        return a
    return simp(z3.And(a, b))

def bor(a, b):
    if a is True or b is True:
        return True
    if a is False:
        return b
    if b is False:
        return a
    return simp(z3.Or(a, b))

def ite(c, a, b, w=None):
    if isinstance(c, bool):
        return a if c else b
    if isinstance(a, bool) or isinstance(b, bool) or z3.is_bool(a) or z3.is_bool(b):
        return simp(z3.If(c, tobool(a), tobool(b)))
    if w is None:
        w = a.size() if not isinstance(a, int) else b.size()
    return simp(z3.If(c, tobv(a, w), tobv(b, w)))

def int_binop(op, x, y, w, sg, yw=None):
    """x,y ints or z3 BVs of width w (y may have other width yw for shifts)"""
    if op in ('<<', '>>'):
        yw = yw or w
        if isinstance(x, int) and isinstance(y, int):
            if op == '<<':
                return (x << y) & mask(w) if y < w else 0
            if sg:
                return (signed(x, w) >> min(y, w - 1)) & mask(w)
            return (x >> y) if y < w else 0
        xb = tobv(x, w)
        yb = tobv(y, yw)
        if yw > w:
            big = z3.UGE(yb, z3.BitVecVal(w, yw))
            ys = z3.Extract(w - 1, 0, yb)
        else:
            big = None
            ys = z3.ZeroExt(w - yw, yb) if yw < w else yb
        if op == '<<':
            r = xb << ys
        else:
            r = (xb >> ys) if sg else z3.LShR(xb, ys)
        if big is not None:
            fill = z3.BitVecVal(0, w)
            if op == '>>' and sg:
                fill = xb >> z3.BitVecVal(w - 1, w)
            r = z3.If(big, fill, r)
        return simp(r)
    if isinstance(x, int) and isinstance(y, int):
        m = mask(w)
        if op == '+': return (x + y) & m
        if op == '-': return (x - y) & m
        if op == '*': return (x * y) & m
        if op == '&': return x & y
        if op == '|': return x | y
        if op == '^': return x ^ y
        if op == '&^': return x & ~y & m
        if op in ('/', '%'):
            if sg:
                a, b = signed(x, w), signed(y, w)
                q = abs(a) // abs(b)
                if (a < 0) != (b < 0): q = -q
                r = a - q * b
                return (q if op == '/' else r) & m
            return (x // y) if op == '/' else (x % y)
        if sg:
            a, b = signed(x, w), signed(y, w)
        else:
            a, b = x, y
        if op == '==': return a == b
        if op == '!=': return a != b
        if op == '<': return a < b
        if op == '<=': return a <= b
        if op == '>': return a > b
        if op == '>=': return a >= b
        raise Unsupported('binop ' + op)
    xb, yb = tobv(x, w), tobv(y, w)
    if op == '+': r = xb + yb
    elif op == '-': r = xb - yb
    elif op == '*': r = xb * yb
    elif op == '&': r = xb & yb
    elif op == '|': r = xb | yb
    elif op == '^': r = xb ^ yb
    elif op == '&^': r = xb & ~yb
    elif op == '/': r = (xb / yb) if sg else z3.UDiv(xb, yb)
    elif op == '%': r = z3.SRem(xb, yb) if sg else z3.URem(xb, yb)
    elif op == '==': r = xb == yb
    elif op == '!=': r = xb != yb
    elif op == '<': r = (xb < yb) if sg else z3.ULT(xb, yb)
    elif op == '<=': r = (xb <= yb) if sg else z3.ULE(xb, yb)
    elif op == '>': r = (xb > yb) if sg else z3.UGT(xb, yb)
    elif op == '>=': r = (xb >= yb) if sg else z3.UGE(xb, yb)
    else:
        raise Unsupported('binop ' + op)
    return simp(r)

def int_convert(v, w1, sg1, w2):
    if isinstance(v, bool) or z3.is_bool(v) if not isinstance(v, int) else False:
        v = tobv(v, w1)
    if isinstance(v, int):
        if w2 <= w1:
            return v & mask(w2)
        return (signed(v, w1) if sg1 else v) & mask(w2)
    if w2 == w1:
        return v
    if w2 < w1:
        return simp(z3.Extract(w2 - 1, 0, v))
    return simp(z3.SignExt(w2 - w1, v) if sg1 else z3.ZeroExt(w2 - w1, v))

# ----------------------------------------------------------------------------
# memory

class Obj:
    __slots__ = ('id', 'size', 'cells', 'zero', 'label', 'ro', 'freed', 'lang', 'meta')
    def __init__(self, oid, size, zero=True, label='', lang='go'):
        self.id, self.size, self.zero, self.label = oid, size, zero, label or ('o%d' % oid)
        self.cells = {}
        self.ro = False
        self.freed = False
        self.lang = lang
        self.meta = None

class Memory:
    def __init__(self, ex):
        self.ex = ex
        self.n = 0
        self.writes = None     # optional write log: list of (obj, off, n)
        self.hook = None       # optional callback after every write: hook(obj, off, n)

    def alloc(self, size, zero=True, label='', lang='go'):
        self.n += 1
        return Obj(self.n, size, zero, label, lang)

    # -- byte level
    def _cover(self, obj, p):
        c = obj.cells
        for s in range(p, max(p - 32, -1), -1):
            e = c.get(s)
            if e is not None:
                if s + e[0] > p:
                    return s, e
                return None
        return None

    def byte_at(self, obj, p):
        cv = self._cover(obj, p)
        if cv is None:
            if obj.zero:
                return 0
            v = self.ex.fresh('undef_%s_%d' % (obj.label, p), 8)
            obj.cells[p] = (1, v)
            return v
        s, (n, v) = cv
        if n == 1:
            if isinstance(v, bool) or (not isinstance(v, int) and z3.is_bool(v)):
                return simp(tobv(v, 8))
            return v
        k = p - s
        if isinstance(v, bool):
            return (1 if v else 0) if k == 0 else 0
        if isinstance(v, int):
            return (v >> (8 * k)) & 0xff
        if z3.is_bool(v):
            return simp(tobv(v, 8)) if k == 0 else 0
        if z3.is_bv(v):
            return simp(z3.Extract(8 * k + 7, 8 * k, v))
        if isinstance(v, Ptr) and v.isnil():
            return 0
        raise Unsupported('byte read of non-scalar cell %r in %s+%d' % (v, obj.label, p))

    def _explode(self, obj, s):
        n, v = obj.cells[s]
        if n == 1:
            return
        bs = [self.byte_at(obj, s + i) for i in range(n)]
        del obj.cells[s]
        for i, b in enumerate(bs):
            obj.cells[s + i] = (1, b)

    def check(self, obj, off, n, what):
        if obj is None:
            raise GoPanic('nil-deref', what)
        if obj.freed:
            raise GoPanic('use-after-free', '%s of %s' % (what, obj.label))
        if off < 0 or off + n > obj.size:
            raise GoPanic('oob', '%s of %d bytes at %s+%d (size %d)' % (what, n, obj.label, off, obj.size))
        if what == 'read' and obj.meta and 'pooled' in obj.meta and not obj.meta.get('pooled_reported'):
            # (e.g. a result that aliases a buffer already handed back to a pool: the next Get may hand it to someone else)
            obj.meta['pooled_reported'] = True
            self.ex.events.append(('assert', 'no use after sync.Pool.Put'))
            self.ex.verif_assert(False, 'no load from a value after it was handed to sync.Pool.Put (Put at %s): another goroutine may already own and overwrite it' % str(obj.meta['pooled']).split('/')[-1])

    def read(self, obj, off, n, raw=False):
        self.check(obj, off, n, 'read')
        e = obj.cells.get(off)
        if e is not None and e[0] == n:
            return e[1]
        if e is None and obj.zero and n > 1:
            # is whole range untouched?
            if all(self._cover(obj, off + i) is None for i in range(n)):
                return None   # caller supplies the zero value
        bs = [self.byte_at(obj, off + i) for i in range(n)]
        if all(isinstance(b, int) for b in bs):
            v = 0
            for i, b in enumerate(bs):
                v |= b << (8 * i)
            return v
        return simp(z3.Concat(*[tobv(b, 8) for b in reversed(bs)])) if n > 1 else bs[0]

    def write(self, obj, off, n, v):
        self.check(obj, off, n, 'write')
        if obj.ro:
            raise GoPanic('write-to-readonly', obj.label)
        if self.writes is not None:
            self.writes.append((obj, off, n))
        ps = getattr(self.ex, 'pstate', None)
        if ps and 'tracked' in ps:
            # shared-state bookkeeping of the logical-thread scheduler: buffers that become reachable from the tracked
            # range are shared too; stores into such buffers must hold the write lock
            pv = v.ptr if isinstance(v, Slice) else v
            if isinstance(pv, Ptr) and pv.obj is not None and pv.obj is not obj and not pv.obj.ro:
                for (oid, lo, hi) in ps['tracked']:
                    if obj.id == oid and off < hi and off + n > lo:
                        ps.setdefault('tracked_objs', set()).add(pv.obj.id)
                        break
            if self.ex.sched is not None and obj.id in ps.get('tracked_objs', ()):
                self.ex.sched.access_pointee(obj, True)
        if obj.meta and 'pooled' in obj.meta and not obj.meta.get('pooled_reported'):
            obj.meta['pooled_reported'] = True
            self.ex.events.append(('assert', 'no use after sync.Pool.Put'))
            self.ex.verif_assert(False, 'no store to a value after it was handed to sync.Pool.Put (Put at %s): another goroutine may already own it' % str(obj.meta['pooled']).split('/')[-1])
        c = obj.cells
        e = c.get(off)
        if e is None or e[0] != n or n > 1:
            # clear overlaps
            for p in range(off, off + n):
                cv = self._cover(obj, p)
                if cv is not None:
                    s, (m, _) = cv
                    if s == off and m == n:
                        break
                    if s < off or s + m > off + n:
                        self._explode(obj, s)
                        for q in range(max(s, off), min(s + m, off + n)):
                            c.pop(q, None)
                    else:
                        del c[s]
        c[off] = (n, v)
        if self.hook is not None:
            self.hook(obj, off, n)

# ----------------------------------------------------------------------------
# program

class Program:
    def __init__(self, path):
        with open(path) as f:
            d = json.load(f)
        self.types = d['types']
        self.funcs = d['funcs']
        self.globals = d['globals']
        self.methods = d['methods']
        self.inits = d['inits']
        self._leaves = {}
        for f in self.funcs.values():
            if 'blocks' in f:
                for b in f['blocks']:
                    for ins in b['ins']:
                        ins['_f'] = f['name']

    def T(self, tid):
        t = self.types[tid]
        while t.get('kind') == 'alias':
            t = self.types[t['elem']]
        return t

    def kind(self, tid):
        return self.T(tid)['kind']

    def size(self, tid):
        return self.T(tid)['size']

    def is_int(self, tid):
        t = self.T(tid)
        return t['kind'] == 'basic' and t.get('isint')

    def leaves(self, tid):
        """list of (offset, size, leaf tid) for scalar leaves of a type"""
        r = self._leaves.get(tid)
        if r is not None:
            return r
        t = self.T(tid)
        k = t['kind']
        r = []
        if k == 'struct':
            for f in t['fields']:
                for (o, n, lt) in self.leaves(f['type']):
                    r.append((f['off'] + o, n, lt))
        elif k == 'array':
            es = self.size(t['elem'])
            el = self.leaves(t['elem'])
            for i in range(t['len']):
                for (o, n, lt) in el:
                    r.append((i * es + o, n, lt))
        else:
            r.append((0, t['size'], tid))
        self._leaves[tid] = r
        return r

# ----------------------------------------------------------------------------
# executor

class Frame:
    __slots__ = ('fn', 'locals', 'defers', 'prev', 'results')
    def __init__(self, fn):
        self.fn = fn
        self.locals = {}
        self.defers = []
        self.prev = None

class Stats:
    def __init__(self):
        self.paths = 0
        self.queries = 0
        self.sat = 0
        self.unsat = 0
        self.unknown = 0
        self.solver_s = 0.0
        self.assert_queries = 0
        self.instrs = 0
    def asdict(self):
        return dict(self.__dict__)

class Executor:
    def __init__(self, prog, timeout_ms=60000, seed=0):
        self.prog = prog
        self.stubs = {}
        self.stats = Stats()
        self.timeout_ms = timeout_ms
        self.seed = seed
        self.map_order_all = False
        self.max_paths = 200000
        self.max_path_instrs = 3000000
        self.want_models = 1
        self.model_refiners = []
        self.model_unrefined = False
        self.init_done = False
        self.global_snapshot = None
        self.called = set()
        self.llvm = None
        self.sched = None
        self.diff_budget = 0       # number of discharged assertion queries of this case still to be written out for the solver cross-check
        self.diff_dir = None
        self.diff_files = []
        from . import gostubs
        gostubs.install(self)

    # ---- per-path state
    def reset_path(self, prefix):
        self.mem = Memory(self)
        self.solver = z3.Solver()
        self.solver.set('timeout', self.timeout_ms)
        self.solver.set('random_seed', self.seed)
        self.model = None
        self.prefix = prefix
        self.trace = []
        self.pending = []
        self.nondets = []      # list of (name, z3 const, width)
        self.fresh_n = 0
        self.globals = {}
        self.assumes = []
        self.events = []       # harness-visible log (reach labels etc.)
        self.inconclusive = []
        self.panicking = None
        self.depth = 0
        self.pathcond = []
        self.uf_cache = {}
        self.path_instrs = 0
        self.pstate = {}      # per-path state of stubs (tables keyed by objects of this path)

    def fresh(self, name, w):
        self.fresh_n += 1
        return z3.BitVec('%s!%d' % (name, self.fresh_n), w)

    def nondet(self, kind, w):
        c = z3.BitVec('nd%d_%s' % (len(self.nondets), kind), w)
        self.nondets.append((kind, c, w))
        return c

    # ---- solver
    def add(self, c):
        if c is True:
            return
        self.solver.add(tobool(c))
        self.pathcond.append(c)
        self.model = None

    def check(self, *extra):
        t0 = time.time()
        r = self.solver.check(*[tobool(e) for e in extra])
        if time.time() - t0 > 3 and os.environ.get('VERIF_SLOWQ'):
            print('SLOWQ %.1fs %s last_event=%s extra=%s' % (time.time() - t0, r, self.events[-1:], [str(e)[:400] for e in extra]), flush=True)
        self.stats.solver_s += time.time() - t0
        self.stats.queries += 1
        if r == z3.sat:
            self.stats.sat += 1
        elif r == z3.unsat:
            self.stats.unsat += 1
        else:
            self.stats.unknown += 1
        return r

    def feasible(self, c):
        if c is True:
            return True
        if c is False:
            return False
        if self.model is not None:
            try:
                if z3.is_true(self.model.eval(c, model_completion=True)):
                    return True
            except z3.Z3Exception:
                pass
        r = self.check(c)
        if r == z3.sat:
            self.model = self.solver.model()
            return True
        if r == z3.unknown:
            self.inconclusive.append('feasibility unknown')
            return True
        return False

    def choose(self, conds):
        """fork over mutually exclusive conditions; returns chosen index"""
        conds = [simp(tobool(c)) if not isinstance(c, bool) else c for c in conds]
        live = [i for i, c in enumerate(conds) if c is not False]
        if len(live) == 1 and conds[live[0]] is True:
            return live[0]
        pos = len(self.trace)
        if pos < len(self.prefix):
            idx = self.prefix[pos]
        else:
            feas = [i for i in live if self.feasible(conds[i])]
            if not feas:
                raise PathEnd('infeasible')
            idx = feas[0]
            for j in feas[1:]:
                self.pending.append(self.trace + [j])
        self.trace.append(idx)
        self.add(conds[idx])
        return idx

    def decide(self, c):
        if isinstance(c, bool):
            return c
        c = simp(c)
        if isinstance(c, bool):
            return c
        return self.choose([c, z3.Not(c)]) == 0

    def concretize(self, v, lo, hi, what='value'):
        """fork a symbolic bit-vector over its feasible values in [lo,hi] (enumerated with the
        solver); a feasible value outside the range ends that path as Unsupported"""
        if isinstance(v, int):
            return v
        v = simp(v)
        if isinstance(v, int):
            return v
        w = v.size()
        pos = len(self.trace)
        if pos < len(self.prefix):
            e = self.prefix[pos]
            self.trace.append(e)
            if e[0] == 'out':
                raise Unsupported('%s outside [%d,%d]' % (what, lo, hi))
            self.add(v == z3.BitVecVal(e[1], w))
            return e[1]
        cap = min(hi - lo + 1, 600)
        inr = z3.And(z3.UGE(v, z3.BitVecVal(lo, w)), z3.ULE(v, z3.BitVecVal(hi, w)))
        found = []
        # try the cached model first
        self.solver.push()
        self.solver.add(inr)
        while True:
            if len(found) > cap:
                self.solver.pop()
                raise Unsupported('more than %d feasible values for %s' % (cap, what))
            r = self.check()
            if r != z3.sat:
                if r == z3.unknown:
                    self.inconclusive.append('concretize unknown: ' + what)
                break
            c = self.solver.model().eval(v, model_completion=True).as_long()
            found.append(c)
            self.solver.add(v != z3.BitVecVal(c, w))
        self.solver.pop()
        out = self.check(z3.Not(inr)) != z3.unsat
        if not found and not out:
            raise PathEnd('infeasible')
        opts = [('val', c) for c in found] + ([('out',)] if out else [])
        for o in opts[1:]:
            self.pending.append(self.trace + [o])
        e = opts[0]
        self.trace.append(e)
        if e[0] == 'out':
            self.add(z3.Not(inr))
            raise Unsupported('%s outside [%d,%d]' % (what, lo, hi))
        self.add(v == z3.BitVecVal(e[1], w))
        return e[1]

    def must(self, c):
        """is c valid on this path? (no fork)"""
        if isinstance(c, bool):
            return c
        return self.check(z3.Not(c)) == z3.unsat

    # ---- type-directed memory access
    def zero_leaf(self, tid):
        t = self.prog.T(tid)
        k = t['kind']
        if k == 'basic':
            if t.get('isstr'):
                return Str(())
            if t.get('isbool'):
                return False
            if t['basic'] == 'unsafe.Pointer':
                return NIL
            if t.get('isfloat'):
                return 0
            return 0
        if k == 'pointer':
            return NIL
        if k == 'slice':
            return NILSLICE
        if k in ('interface', 'map', 'func', 'chan'):
            return None
        raise Unsupported('zero of ' + tid)

    def zero(self, tid):
        t = self.prog.T(tid)
        k = t['kind']
        if k == 'struct':
            return Agg(self.zero(f['type']) for f in t['fields'])
        if k == 'array':
            return Agg(self.zero(t['elem']) for _ in range(t['len']))
        if k == 'tuple':
            return tuple(self.zero(e) for e in t['elems'])
        return self.zero_leaf(tid)

    def load(self, ptr, tid):
        if not isinstance(ptr, Ptr):
            raise Unsupported('load through non-pointer %r' % (ptr,))
        if ptr.obj is None:
            raise GoPanic('nil-deref', 'load ' + tid)
        off = ptr.off
        if not isinstance(off, int):
            off = self.concretize(off, 0, max(ptr.obj.size - 1, 0), 'load offset')
        return self._load(ptr.obj, off, tid)

    def _load(self, obj, off, tid):
        t = self.prog.T(tid)
        k = t['kind']
        if k == 'struct':
            return Agg(self._load(obj, off + f['off'], f['type']) for f in t['fields'])
        if k == 'array':
            es = self.prog.size(t['elem'])
            return Agg(self._load(obj, off + i * es, t['elem']) for i in range(t['len']))
        n = t['size']
        if self.sched is not None:
            self.shared_access(obj, off, n, False)
        v = self.mem.read(obj, off, n)
        if v is None:
            return self.zero_leaf(tid)
        if k == 'basic':
            if t.get('isbool') and not isinstance(v, bool):
                if isinstance(v, int):
                    return v != 0
                if z3.is_bv(v):
                    return simp(v != 0)
            return v
        if k == 'pointer' or (k == 'basic' and t['basic'] == 'unsafe.Pointer'):
            if isinstance(v, int) and v == 0:
                return NIL
        return v

    def store(self, ptr, tid, v):
        if not isinstance(ptr, Ptr):
            raise Unsupported('store through non-pointer')
        if ptr.obj is None:
            raise GoPanic('nil-deref', 'store ' + tid)
        off = ptr.off
        if not isinstance(off, int):
            off = self.concretize(off, 0, max(ptr.obj.size - 1, 0), 'store offset')
        self._store(ptr.obj, off, tid, v)

    def _store(self, obj, off, tid, v):
        t = self.prog.T(tid)
        k = t['kind']
        if k == 'struct':
            for f, fv in zip(t['fields'], v):
                self._store(obj, off + f['off'], f['type'], fv)
            return
        if k == 'array':
            es = self.prog.size(t['elem'])
            for i, ev in enumerate(v):
                self._store(obj, off + i * es, t['elem'], ev)
            return
        if self.sched is not None:
            self.shared_access(obj, off, t['size'], True)
        self.mem.write(obj, off, t['size'], v)

    def new(self, tid, label='', heap=True):
        o = self.mem.alloc(self.prog.size(tid), True, label)
        return Ptr(o, 0)

    # bytes helpers for stubs
    def read_bytes(self, sl):
        """list of byte values of a []byte Slice"""
        if sl.len == 0:
            return []
        off = sl.ptr.off
        if not isinstance(off, int):
            off = self.concretize(off, 0, sl.ptr.obj.size, 'slice offset')
        self.mem.check(sl.ptr.obj, off, sl.len, 'read')
        return [self.mem.byte_at(sl.ptr.obj, off + i) for i in range(sl.len)]

    def write_bytes(self, sl, bs):
        off = sl.ptr.off
        if len(bs) == 0:
            return
        if not isinstance(off, int):
            off = self.concretize(off, 0, sl.ptr.obj.size, 'slice offset')
        for i, b in enumerate(bs):
            self.mem.write(sl.ptr.obj, off + i, 1, b)

    def make_bytes(self, bs, label='bytes', cap=None):
        n = len(bs)
        o = self.mem.alloc(max(cap or n, n), True, label)
        for i, b in enumerate(bs):
            if not (isinstance(b, int) and b == 0):
                o.cells[i] = (1, b)
        return Slice(Ptr(o, 0), n, max(cap or n, n))

    def sym_bytes(self, n, kind='byte', label='symbytes'):
        return self.make_bytes([self.nondet(kind, 8) for _ in range(n)], label)

    # ---- globals
    def global_ptr(self, name):
        p = self.globals.get(name)
        if p is None:
            g = self.prog.globals[name]
            p = self.new(g['elem'], 'G:' + name.split('/')[-1])
            self.globals[name] = p
        return p

    # ---- operands
    def val(self, fr, r):
        k = r['k']
        if k == 'l':
            try:
                return fr.locals[r['n']]
            except KeyError:
                raise Unsupported('unset local %s in %s' % (r['n'], fr.fn['name']))
        if k == 'const':
            return self.const(r)
        if k == 'global':
            return self.global_ptr(r['n'])
        if k == 'func':
            return Closure(r['n'])
        if k == 'builtin':
            return ('builtin', r['n'])
        raise Unsupported('operand ' + str(r))

    def const(self, r):
        tid = r['t']
        if 'i' in r:
            t = self.prog.T(tid)
            w = t['size'] * 8
            return int(r['i']) & mask(w)
        if 's' in r:
            return Str(r['s'])
        if 'v' in r and r['v'] is not None:
            return r['v']
        if r.get('zero') or r.get('v') is None and 'f' not in r:
            return self.zero(tid)
        if 'f' in r:
            raise Unsupported('float const')
        raise Unsupported('const ' + str(r))

    # ---- calls
    def call_value(self, fv, args, ins=None):
        if fv is None:
            raise GoPanic('nil-deref', 'call of nil func', ins.get('pos', '') if ins else '')
        if isinstance(fv, tuple) and fv[0] == 'builtin':
            return self.builtin(fv[1], args, ins)
        if isinstance(fv, Closure):
            return self.call(fv.fn, args, fv.bindings, ins)
        raise Unsupported('call of %r' % (fv,))

    def call(self, name, args, bindings=(), ins=None):
        st = self.stubs.get(name)
        if st is not None:
            self.called.add(name)
            return st(self, args, ins)
        if name.endswith('.init') and '(' not in name and not name.startswith('github.com/onflow/crypto'):
            return None     # initialisers of dependency packages are not modelled (their globals are not read)
        if self.llvm is not None and name.startswith('github.com/onflow/crypto._Cfunc_'):
            return self.llvm.call_from_go(self, name, args, ins)
        fn = self.prog.funcs.get(name)
        if fn is None or 'blocks' not in fn:
            # package initialisers of packages we do not model are no-ops
            if name.endswith('.init') or '.init#' in name:
                return None
            raise Unsupported('no body/stub for ' + name)
        self.called.add(name)
        return self.run(fn, args, bindings)

    def invoke(self, recv, meth, args, ins):
        if recv is None:
            raise GoPanic('nil-deref', 'invoke %s on nil interface' % meth, ins.get('pos', ''))
        if not isinstance(recv, Iface):
            raise Unsupported('invoke on %r' % (recv,))
        ms = self.prog.methods.get(recv.tid)
        if ms is None or meth not in ms:
            st = self.stubs.get(('method', recv.tid, meth))
            if st is not None:
                return st(self, [recv.val] + args, ins)
            raise Unsupported('no method %s on %s' % (meth, recv.tid))
        return self.call(ms[meth], [recv.val] + args, (), ins)

    def run(self, fn, args, bindings=()):
        fr = Frame(fn)
        self.depth += 1
        if self.depth > 400:
            raise Unsupported('call depth')
        for p, a in zip(fn['params'], args):
            fr.locals[p['n']] = a
        for p, a in zip(fn.get('freevars', ()), bindings):
            fr.locals[p['n']] = a
        try:
            try:
                return self.exec_blocks(fr, 0)
            except GoPanic as gp:
                if not fr.defers and 'recover' not in fn:
                    raise
                # run deferred calls while panicking
                saved = self.panicking
                self.panicking = gp
                try:
                    self.run_defers(fr)
                    recovered = self.panicking is None
                finally:
                    if self.panicking is not None:
                        self.panicking = saved
                if not recovered:
                    raise
                self.panicking = saved
                if 'recover' in fn:
                    return self.exec_blocks(fr, fn['recover'])
                sig = self.prog.T(fn['sig'])
                rs = [self.zero(t) for t in sig['results']]
                return rs[0] if len(rs) == 1 else (tuple(rs) if rs else None)
        finally:
            self.depth -= 1

    def run_defers(self, fr):
        while fr.defers:
            d = fr.defers.pop()
            d()

    def exec_blocks(self, fr, bi):
        fn = fr.fn
        blocks = fn['blocks']
        prev = -1
        L = fr.locals
        while True:
            b = blocks[bi]
            nxt = None
            # phis are evaluated simultaneously
            phis = {}
            for ins in b['ins']:
                if ins['op'] != 'Phi':
                    break
                e = ins['edges'][b['preds'].index(prev)]
                phis[ins['n']] = self.val(fr, e)
            L.update(phis)
            for ins in b['ins']:
                op = ins['op']
                if op == 'Phi':
                    continue
                self.stats.instrs += 1
                self.path_instrs += 1
                if self.path_instrs > self.max_path_instrs:
                    raise Unsupported('instruction budget exceeded in ' + fn['name'])
                try:
                    r = self.step(fr, ins, op)
                except GoPanic as gp:
                    if not gp.pos:
                        gp.pos = ins.get('pos', '') or fn['name']
                    raise
                if op == 'Return':
                    return r
                if op == 'Jump':
                    nxt = b['succs'][0]
                elif op == 'If':
                    nxt = b['succs'][0] if r else b['succs'][1]
            if nxt is None:
                raise Unsupported('block without terminator in ' + fn['name'])
            prev, bi = bi, nxt

    def step(self, fr, ins, op):
        P = self.prog
        V = lambda r: self.val(fr, r)
        L = fr.locals
        if op == 'UnOp':
            o = ins['o']
            x = V(ins['x'])
            if o == '*':
                L[ins['n']] = self.load(x, ins['t'])
            elif o == '!':
                L[ins['n']] = bnot(x)
            elif o == '-':
                w = P.size(ins['t']) * 8
                L[ins['n']] = int_binop('-', 0, x, w, False)
            elif o == '^':
                w = P.size(ins['t']) * 8
                L[ins['n']] = int_binop('^', mask(w), x, w, False)
            else:
                raise Unsupported('unop ' + o)
            return
        if op == 'BinOp':
            L[ins['n']] = self.binop(ins, V(ins['x']), V(ins['y']))
            return
        if op == 'Store':
            self.store(V(ins['a']), ins['vt'], V(ins['v']))
            return
        if op == 'IndexAddr':
            L[ins['n']] = self.index_addr(ins, V(ins['x']), V(ins['i']))
            return
        if op == 'FieldAddr':
            x = V(ins['x'])
            if x.obj is None:
                raise GoPanic('nil-deref', 'field address', ins.get('pos', ''))
            f = P.T(ins['st'])['fields'][ins['i']]
            L[ins['n']] = x.add(f['off'])
            return
        if op == 'Field':
            L[ins['n']] = V(ins['x'])[ins['i']]
            return
        if op == 'If':
            return self.decide(V(ins['c']))
        if op == 'Jump':
            return
        if op == 'Return':
            self.run_defers_if_needed(fr)
            rs = [V(r) for r in ins['rs']]
            if not rs:
                return None
            return rs[0] if len(rs) == 1 else tuple(rs)
        if op == 'Call':
            r = self.do_call(fr, ins)
            L[ins['n']] = r
            return
        if op == 'Alloc':
            L[ins['n']] = self.new(ins['elem'], ins.get('comment') or 'alloc')
            return
        if op == 'Slice':
            L[ins['n']] = self.slice_op(ins, V(ins['x']),
                                        V(ins['lo']) if ins['lo'] else None,
                                        V(ins['hi']) if ins['hi'] else None,
                                        V(ins['max']) if ins['max'] else None)
            return
        if op == 'Convert':
            L[ins['n']] = self.convert(ins, V(ins['x']))
            return
        if op == 'ChangeType' or op == 'ChangeInterface':
            L[ins['n']] = V(ins['x'])
            return
        if op == 'Extract':
            L[ins['n']] = V(ins['x'])[ins['i']]
            return
        if op == 'MakeInterface':
            L[ins['n']] = Iface(ins['xt'], V(ins['x']))
            return
        if op == 'MakeSlice':
            ln = V(ins['len']); cp = V(ins['cap'])
            et = P.T(ins['t'])['elem']
            es = P.size(et)
            if not isinstance(ln, int):
                ln = self.sym_len(ln, 'make len')
            if not isinstance(cp, int):
                cp = self.sym_len(cp, 'make cap')
            ln = signed(ln, 64); cp = signed(cp, 64)
            if ln < 0 or cp < ln:
                raise GoPanic('makeslice', 'len out of range', ins.get('pos', ''))
            if cp * es > (1 << 26):
                raise Unsupported('huge allocation %d' % (cp * es))
            o = self.mem.alloc(cp * es, True, 'makeslice')
            L[ins['n']] = Slice(Ptr(o, 0), ln, cp)
            return
        if op == 'MakeClosure':
            f = ins['fn']
            L[ins['n']] = Closure(f['n'], [V(b) for b in ins['bindings']])
            return
        if op == 'MakeMap':
            L[ins['n']] = MapObj()
            return
        if op == 'MapUpdate':
            self.map_update(V(ins['m']), V(ins['k']), V(ins['v']), ins)
            return
        if op == 'Lookup':
            L[ins['n']] = self.lookup(ins, V(ins['x']), V(ins['i']))
            return
        if op == 'TypeAssert':
            L[ins['n']] = self.type_assert(ins, V(ins['x']))
            return
        if op == 'Index':
            x = V(ins['x']); i = V(ins['i'])
            if isinstance(x, Str):
                i = self.bound_index(i, len(x.b), ins)
                L[ins['n']] = x.b[i]
            else:
                i = self.bound_index(i, len(x), ins)
                L[ins['n']] = x[i]
            return
        if op == 'Panic':
            x = V(ins['x'])
            msg = ''
            if isinstance(x, Iface):
                msg = repr(x.val.py() if isinstance(x.val, Str) else x.val)
            gp = GoPanic('explicit', msg, ins.get('pos', ''))
            gp.value = x
            raise gp
        if op == 'Defer':
            self.do_defer(fr, ins)
            return
        if op == 'RunDefers':
            self.run_defers(fr)
            return
        if op == 'Range':
            x = V(ins['x'])
            if isinstance(x, Str):
                raise Unsupported('range over string')
            self.shared_map_access(x, False)
            L[ins['n']] = MapIter(list(x.entries) if x is not None else [])
            return
        if op == 'Next':
            it = V(ins['x'])
            if not it.items:
                L[ins['n']] = (False, None, None)
                return
            if self.map_order_all and len(it.items) > 1:
                i = self.choose([True] * len(it.items)) if False else self.fork_index(len(it.items))
            else:
                i = 0
            k, v = it.items.pop(i)
            L[ins['n']] = (True, k, v)
            return
        if op == 'SliceToArrayPointer':
            x = V(ins['x'])
            n = P.T(P.T(ins['t'])['elem'])['len']
            if x.len < n:
                raise GoPanic('slice-to-array', 'length %d < %d' % (x.len, n), ins.get('pos', ''))
            L[ins['n']] = x.ptr if n > 0 or not x.ptr.isnil() else NIL
            return
        if op == 'MultiConvert':
            L[ins['n']] = self.convert(ins, V(ins['x']))
            return
        raise Unsupported('instruction ' + op + ' in ' + fr.fn['name'])

    def fork_index(self, n):
        """unconstrained n-way fork"""
        pos = len(self.trace)
        if pos < len(self.prefix):
            idx = self.prefix[pos]
        else:
            idx = 0
            for j in range(1, n):
                self.pending.append(self.trace + [j])
        self.trace.append(idx)
        return idx

    def run_defers_if_needed(self, fr):
        pass

    def sym_len(self, v, what):
        v = simp(v)
        if isinstance(v, int):
            return v
        return self.concretize(v, 0, 4096, what)

    # ---- helpers for instructions
    def binop(self, ins, x, y):
        op = ins['o']
        P = self.prog
        xt = P.T(ins['xt'])
        k = xt['kind']
        if k == 'basic' and xt.get('isint'):
            w = xt['size'] * 8
            if isinstance(x, Ptr):     # uintptr arithmetic on a pointer
                if isinstance(y, int) and y == 0 and op in ('^', '+', '|', '-'):
                    return x
                if op == '+':
                    return x.add(y)
                if op == '-' and isinstance(y, Ptr) and y.obj is x.obj:
                    return int_binop('-', x.off, y.off, 64, False)
                # alignment tests on an address: allocations of 16 bytes or more are 8-byte aligned (Go size
                # classes; smaller pointer-free objects may come from the tiny allocator with any alignment)
                if isinstance(y, int) and x.obj is not None and x.obj.size >= 16 and ((op == '%' and y in (2, 4, 8)) or (op == '&' and y in (1, 3, 7))):
                    m = y if op == '%' else y + 1
                    return int_binop('%', x.off, m, 64, False)
                raise Unsupported('pointer arithmetic ' + op)
            yw = None
            if op in ('<<', '>>'):
                yw = P.size(ins['yt']) * 8
            if op in ('/', '%'):
                if self.decide(int_binop('==', y, 0, w, False)):
                    raise GoPanic('div-by-zero', '', ins.get('pos', ''))
            return int_binop(op, x, y, w, xt['signed'], yw)
        if k == 'basic' and xt.get('isbool'):
            if op == '==':
                return self.bool_eq(x, y)
            if op == '!=':
                return bnot(self.bool_eq(x, y))
        if k == 'basic' and xt.get('isstr'):
            if op == '+':
                return Str(x.b + y.b)
            if op == '==':
                return self.str_eq(x, y)
            if op == '!=':
                return bnot(self.str_eq(x, y))
            if x.concrete() and y.concrete():
                a, b = bytes(x.b), bytes(y.b)
                return {'<': a < b, '<=': a <= b, '>': a > b, '>=': a >= b}[op]
            raise Unsupported('string compare ' + op)
        if op in ('==', '!='):
            e = self.equal(x, y, ins['xt'])
            return e if op == '==' else bnot(e)
        raise Unsupported('binop %s on %s' % (op, ins['xt']))

    def bool_eq(self, x, y):
        if isinstance(x, bool) and isinstance(y, bool):
            return x == y
        return simp(tobool(x) == tobool(y))

    def str_eq(self, x, y):
        if len(x.b) != len(y.b):
            return False
        # strings that are digests (>= 16 bytes) of concretely different contents differ: the collision-resistance
        # axiom of the hash model, applied syntactically (saves a solver query per pair of map keys)
        dg = self.pstate.get('digest_of')
        if dg and len(x.b) >= 16 and not isinstance(x.b[0], int) and not isinstance(y.b[0], int):
            c1, c2 = dg.get(x.b[0].get_id()), dg.get(y.b[0].get_id())
            if c1 is not None and c2 is not None:
                from . import stubs_hash
                if stubs_hash._content_eq(c1, c2) is False:
                    return False
        r = True
        for a, b in zip(x.b, y.b):
            r = band(r, int_binop('==', a, b, 8, False))
            if r is False:
                return False
        return r

    def equal(self, x, y, tid):
        t = self.prog.T(tid)
        k = t['kind']
        if k == 'basic':
            if t.get('isint'):
                return int_binop('==', x, y, t['size'] * 8, False)
            if t.get('isbool'):
                return self.bool_eq(x, y)
            if t.get('isstr'):
                return self.str_eq(x, y)
            if t['basic'] == 'unsafe.Pointer':
                return self.ptr_eq(x, y)
            if t['basic'] == 'untyped nil':
                return True
        if k == 'pointer':
            return self.ptr_eq(x, y)
        if k == 'struct':
            r = True
            for f, a, b in zip(t['fields'], x, y):
                r = band(r, self.equal(a, b, f['type']))
            return r
        if k == 'array':
            r = True
            for a, b in zip(x, y):
                r = band(r, self.equal(a, b, t['elem']))
            return r
        if k == 'interface':
            if x is None or y is None:
                return x is None and y is None
            if x.tid != y.tid:
                return False
            if x.tid not in self.prog.types:      # model objects (curve singletons, stream hashes): identity
                if isinstance(x.val, Ptr) and isinstance(y.val, Ptr):
                    return self.ptr_eq(x.val, y.val)
                return x.val is y.val
            return self.equal(x.val, y.val, x.tid)
        if k == 'slice':
            # only comparison with nil is legal
            if y is NILSLICE or (isinstance(y, Slice) and y.ptr.isnil() and y.len == 0 and y.cap == 0):
                return x.ptr.isnil()
            if x is NILSLICE or (isinstance(x, Slice) and x.ptr.isnil()):
                return y.ptr.isnil()
        if k in ('map', 'func', 'chan'):
            if x is None or y is None:
                return x is None and y is None
            return x is y
        raise Unsupported('equality on ' + tid)

    def ptr_eq(self, x, y):
        if x.obj is not y.obj:
            return False
        if x.obj is None:
            return True
        return int_binop('==', x.off, y.off, 64, False)

    def bound_index(self, i, n, ins):
        """bounds-checked index -> concrete python int"""
        if isinstance(i, int):
            si = signed(i, 64)
            if si < 0 or si >= n:
                raise GoPanic('index', 'index %d out of range [0,%d)' % (si, n), ins.get('pos', ''))
            return si
        w = i.size()
        if n >= (1 << w):       # every value of the index type is in range (e.g. a uint8 index into 256 entries)
            return self.concretize(i, 0, (1 << w) - 1, 'index')
        inr = z3.ULT(i, z3.BitVecVal(n, w))
        if not self.decide(inr):
            raise GoPanic('index', 'symbolic index out of range [0,%d)' % n, ins.get('pos', ''))
        return self.concretize(i, 0, n - 1, 'index')

    def index_addr(self, ins, x, i):
        P = self.prog
        xt = P.T(ins['xt'])
        it = P.T(ins['it'])
        iw = it['size'] * 8
        if not isinstance(i, int) and i.size() != 64:
            i = int_convert(i, iw, it.get('signed', False), 64)
        elif isinstance(i, int):
            i = int_convert(i, iw, it.get('signed', False), 64)
        if xt['kind'] == 'slice':
            es = P.size(xt['elem'])
            n = x.len
            base = x.ptr
        else:   # pointer to array
            at = P.T(xt['elem'])
            es = P.size(at['elem'])
            n = at['len']
            base = x
            if base.obj is None:
                raise GoPanic('nil-deref', 'index of nil array pointer', ins.get('pos', ''))
        if isinstance(i, int):
            si = signed(i, 64)
            if si < 0 or si >= n:
                raise GoPanic('index', 'index %d out of range [0,%d)' % (si, n), ins.get('pos', ''))
            return base.add(si * es)
        inr = z3.ULT(i, z3.BitVecVal(n, 64))
        if not self.decide(inr):
            raise GoPanic('index', 'symbolic index out of range [0,%d)' % n, ins.get('pos', ''))
        ci = self.concretize(i, 0, n - 1, 'index')
        return base.add(ci * es)

    def slice_op(self, ins, x, lo, hi, mx):
        P = self.prog
        xt = P.T(ins['xt'])
        pos = ins.get('pos', '')
        def conc(v, what, hi_bound):
            if v is None or isinstance(v, int):
                return v
            v = simp(v)
            if isinstance(v, int):
                return v
            # bounds check symbolically first, then fork on the value
            ok = z3.ULE(v, z3.BitVecVal(hi_bound, v.size()))
            if not self.decide(ok):
                raise GoPanic('slice-bounds', 'symbolic %s out of range (>%d)' % (what, hi_bound), pos)
            return self.concretize(v, 0, hi_bound, what)
        if xt['kind'] == 'basic':   # string
            n = len(x.b)
            lo = conc(lo, 'low', n); hi = conc(hi, 'high', n)
            lo = 0 if lo is None else signed(lo, 64)
            hi = n if hi is None else signed(hi, 64)
            if not (0 <= lo <= hi <= n):
                raise GoPanic('slice-bounds', '[%d:%d] of string len %d' % (lo, hi, n), pos)
            return Str(x.b[lo:hi])
        if xt['kind'] == 'slice':
            es = P.size(xt['elem'])
            base, ln, cp = x.ptr, x.len, x.cap
        else:
            at = P.T(xt['elem'])
            es = P.size(at['elem'])
            if x.obj is None:
                raise GoPanic('nil-deref', 'slice of nil array pointer', pos)
            base, ln, cp = x, at['len'], at['len']
        lo = conc(lo, 'low', cp); hi = conc(hi, 'high', cp); mx = conc(mx, 'max', cp)
        lo = 0 if lo is None else signed(lo, 64)
        hi = ln if hi is None else signed(hi, 64)
        mx = cp if mx is None else signed(mx, 64)
        if not (0 <= lo <= hi <= mx <= cp):
            raise GoPanic('slice-bounds', '[%d:%d:%d] with cap %d' % (lo, hi, mx, cp), pos)
        if base.obj is None:
            return Slice(NIL, 0, 0)
        return Slice(base.add(lo * es), hi - lo, mx - lo)

    def convert(self, ins, x):
        P = self.prog
        ft = P.T(ins['xt']); tt = P.T(ins['t'])
        fk, tk = ft['kind'], tt['kind']
        if fk == 'basic' and tk == 'basic':
            if ft.get('isint') and tt.get('isint'):
                if isinstance(x, Ptr):
                    return x
                return int_convert(x, ft['size'] * 8, ft['signed'], tt['size'] * 8)
            if ft['basic'] == 'unsafe.Pointer' and tt.get('isint'):
                return x       # keep pointer identity in uintptr
            if tt['basic'] == 'unsafe.Pointer' and ft.get('isint'):
                if isinstance(x, Ptr):
                    return x
                if isinstance(x, int) and x == 0:
                    return NIL
                raise Unsupported('int to unsafe.Pointer')
            if ft.get('isstr') and tt.get('isstr'):
                return x
            if ft.get('isint') and tt.get('isstr'):
                if isinstance(x, int):
                    return Str(chr(x).encode())
                raise Unsupported('symbolic int to string')
            if ft.get('isfloat') or tt.get('isfloat'):
                raise Unsupported('float conversion')
        if fk == 'pointer' and tk == 'basic' or fk == 'basic' and tk == 'pointer' or fk == 'pointer' and tk == 'pointer':
            return x
        if fk == 'basic' and ft.get('isstr') and tk == 'slice':
            return self.make_bytes(list(x.b), 'str2bytes')
        if fk == 'slice' and tk == 'basic' and tt.get('isstr'):
            return Str(self.read_bytes(x))
        if fk == 'slice' and tk == 'slice':
            return x
        raise Unsupported('convert %s -> %s' % (ins['xt'], ins['t']))

    # ---- maps
    def key_eq(self, a, b):
        if isinstance(a, Str):
            return self.str_eq(a, b)
        if isinstance(a, (int,)) or z3.is_bv(a) if not isinstance(a, (Str, Agg, Iface, Ptr, Abstract)) else False:
            w = a.size() if not isinstance(a, int) else (b.size() if not isinstance(b, int) else 64)
            return int_binop('==', a, b, w, False)
        if isinstance(a, Agg):
            r = True
            for u, v in zip(a, b):
                r = band(r, self.key_eq(u, v))
            return r
        if isinstance(a, Iface):
            if b is None or a.tid != b.tid:
                return False
            return self.key_eq(a.val, b.val)
        if isinstance(a, Ptr):
            return self.ptr_eq(a, b)
        if isinstance(a, bool) or z3.is_bool(a):
            return self.bool_eq(a, b)
        if a is None:
            return b is None
        raise Unsupported('map key %r' % (a,))

    def shared_access(self, obj, off, n, write):
        for (oid, lo, hi) in self.pstate.get('tracked', ()):
            if obj.id == oid and off < hi and off + n > lo:
                self.sched.access('%s+%d' % (obj.label, off), write)
                return

    def shared_map_access(self, m, write):
        if self.sched is not None and m is not None and id(m) in self.pstate.get('tracked_maps', ()):
            self.sched.access('shared map', write)

    def map_find(self, m, k):
        self.shared_map_access(m, False)
        for e in m.entries:
            if self.decide(self.key_eq(e[0], k)):
                return e
        return None

    def map_update(self, m, k, v, ins):
        if m is None:
            raise GoPanic('nil-map', 'assignment to entry in nil map', ins.get('pos', ''))
        self.shared_map_access(m, True)
        e = self.map_find(m, k)
        if e is not None:
            e[1] = v
        else:
            m.entries.append([k, v])

    def lookup(self, ins, x, i):
        P = self.prog
        xt = P.T(ins['xt'])
        if xt['kind'] == 'map':
            e = self.map_find(x, i) if x is not None else None
            if e is None:
                v = self.zero(xt['elem'])
                return (v, False) if ins['commaok'] else v
            return (e[1], True) if ins['commaok'] else e[1]
        # string index
        idx = self.bound_index(i, len(x.b), ins)
        return x.b[idx]

    # ---- interfaces
    def implements(self, tid, iface_tid):
        it = self.prog.T(iface_tid)
        ms = self.prog.methods.get(tid, {})
        return all(m in ms or ('method', tid, m) in self.stubs for m in it['methods'])

    def type_assert(self, ins, x):
        at = ins['at']
        akind = self.prog.kind(at)
        ok = False
        if x is not None:
            if akind == 'interface':
                ok = self.implements(x.tid, at)
            else:
                ok = (x.tid == at)
        if ins['commaok']:
            if ok:
                return ((x if akind == 'interface' else x.val), True)
            return (self.zero(at), False)
        if not ok:
            raise GoPanic('type-assert', '%s is not %s' % (x.tid if x else 'nil', at), ins.get('pos', ''))
        return x if akind == 'interface' else x.val

    # ---- calls
    def do_call(self, fr, ins):
        V = lambda r: self.val(fr, r)
        args = [V(a) for a in ins['args']]
        if 'invoke' in ins:
            return self.invoke(V(ins['recv']), ins['invoke'], args, ins)
        f = ins['fn']
        if f['k'] == 'func':
            return self.call(f['n'], args, (), ins)
        if f['k'] == 'builtin':
            return self.builtin(f['n'], args, ins)
        return self.call_value(V(f), args, ins)

    def do_defer(self, fr, ins):
        V = lambda r: self.val(fr, r)
        args = [V(a) for a in ins['args']]
        if 'invoke' in ins:
            recv = V(ins['recv'])
            fr.defers.append(lambda: self.invoke(recv, ins['invoke'], args, ins))
            return
        f = ins['fn']
        if f['k'] == 'func':
            fr.defers.append(lambda: self.call(f['n'], args, (), ins))
        elif f['k'] == 'builtin':
            fr.defers.append(lambda: self.builtin(f['n'], args, ins))
        else:
            fv = V(f)
            fr.defers.append(lambda: self.call_value(fv, args, ins))

    def builtin(self, name, args, ins):
        P = self.prog
        if name == 'len':
            x = args[0]
            if isinstance(x, Slice): return x.len
            if isinstance(x, Str): return len(x.b)
            if isinstance(x, MapObj):
                self.shared_map_access(x, False)
                return len(x.entries)
            if x is None: return 0
            if isinstance(x, Agg): return len(x)
            raise Unsupported('len of %r' % (x,))
        if name == 'cap':
            x = args[0]
            if isinstance(x, Slice): return x.cap
            raise Unsupported('cap')
        if name == 'append':
            s, t = args
            st = P.T(ins['t']) if ins and 't' in ins else None
            es = P.size(st['elem']) if st else 1
            if isinstance(t, Str):
                tb = list(t.b); tn = len(tb)
            else:
                tn = t.len; tb = None
            if tn == 0:
                return s
            nl = s.len + tn
            if nl <= s.cap and not s.ptr.isnil():
                dst = s.ptr
                res = Slice(s.ptr, nl, s.cap)
            else:
                ncap = nl
                o = self.mem.alloc(ncap * es, True, 'append')
                dst = Ptr(o, 0)
                self.memmove(dst, s.ptr, s.len * es)
                res = Slice(dst, nl, ncap)
            if tb is not None:
                d = dst.add(s.len * es)
                for i, b in enumerate(tb):
                    self.mem.write(d.obj, d.off + i, 1, b)
            else:
                self.memmove(dst.add(s.len * es), t.ptr, tn * es)
            return res
        if name == 'copy':
            d, s = args
            if isinstance(s, Str):
                n = min(d.len, len(s.b))
                self.write_bytes(Slice(d.ptr, n, n), list(s.b[:n]))
                return n
            # element size from the signature of the builtin call
            es = 1
            sig = P.T(ins['sig']) if ins and 'sig' in ins else None
            if sig:
                es = P.size(P.T(sig['params'][0])['elem'])
            n = min(d.len, s.len)
            self.memmove(d.ptr, s.ptr, n * es)
            return n
        if name == 'clear':
            x = args[0]
            if isinstance(x, MapObj):
                self.shared_map_access(x, True)
                x.entries[:] = []
                return None
            if isinstance(x, Slice):
                es = 1
                sig = P.T(ins['sig']) if ins and 'sig' in ins else None
                if sig:
                    es = P.size(P.T(sig['params'][0])['elem'])
                n = self.sym_len(x.len, 'clear length') if not isinstance(x.len, int) else x.len
                for k in range(n * es):
                    self.mem.write(x.ptr.obj, x.ptr.off + k, 1, 0)
                return None
            if x is None:
                return None
            raise Unsupported('clear of %r' % (x,))
        if name in ('min', 'max'):
            sig = P.T(ins['sig'])
            tt = P.T(sig['params'][0])
            w = tt['size'] * 8
            r = args[0]
            for a in args[1:]:
                c = int_binop('<' if name == 'min' else '>', a, r, w, tt['signed'])
                if isinstance(c, bool):
                    r = a if c else r
                else:
                    r = ite(c, a, r, w)
            return r
        if name == 'delete':
            m, k = args
            if m is None:
                return None
            e = self.map_find(m, k)
            if e is not None:
                m.entries.remove(e)
            return None
        if name == 'recover':
            p = self.panicking
            if p is None:
                return None
            self.panicking = None
            return p.value if p.value is not None else Iface('string', Str(str(p).encode()))
        if name in ('print', 'println'):
            return None
        if name == 'clear':
            x = args[0]
            if isinstance(x, MapObj):
                x.entries.clear()
                return None
        if name == 'ssa:wrapnilchk':
            if isinstance(args[0], Ptr) and args[0].isnil():
                raise GoPanic('nil-deref', 'wrapnilchk', ins.get('pos', ''))
            return args[0]
        if name == 'Slice':          # unsafe.Slice(ptr, len)
            ptr, ln = args
            if not isinstance(ln, int):
                ln = self.sym_len(ln, 'unsafe.Slice length')
            ln = signed(ln, 64)
            if isinstance(ptr, Ptr) and ptr.isnil():
                if ln != 0:
                    raise GoPanic('explicit', 'unsafe.Slice: ptr is nil and len is not zero', ins.get('pos', '') if ins else '')
                return Slice(NIL, 0, 0)
            if ln < 0:
                raise GoPanic('explicit', 'unsafe.Slice: len out of range', ins.get('pos', '') if ins else '')
            return Slice(ptr, ln, ln)
        if name == 'SliceData':      # unsafe.SliceData: pointer to the first element of the backing array
            x = args[0]
            return x.ptr if isinstance(x, Slice) else NIL
        if name == 'StringData':
            x = args[0]
            if isinstance(x, Str):
                o = self.mem.alloc(max(len(x.b), 1), True, 'stringdata')
                for i, b in enumerate(x.b):
                    self.mem.write(o, i, 1, b)
                o.ro = True
                return Ptr(o, 0)
        raise Unsupported('builtin ' + name)

    def memmove(self, dst, src, n):
        if n == 0:
            return
        if src.obj is None or dst.obj is None:
            raise GoPanic('nil-deref', 'memmove')
        so, do = src.off, dst.off
        if not isinstance(so, int):
            so = self.concretize(so, 0, src.obj.size, 'memmove src')
        if not isinstance(do, int):
            do = self.concretize(do, 0, dst.obj.size, 'memmove dst')
        self.mem.check(src.obj, so, n, 'read')
        self.mem.check(dst.obj, do, n, 'write')
        # copy cell-wise where aligned, else bytes
        cells = []
        p = so
        while p < so + n:
            e = src.obj.cells.get(p)
            if e is not None and p + e[0] <= so + n:
                cells.append((p - so, e[0], e[1]))
                p += e[0]
            else:
                cells.append((p - so, 1, self.mem.byte_at(src.obj, p)))
                p += 1
        for (o, m, v) in cells:
            self.mem.write(dst.obj, do + o, m, v)

    # ---- top level exploration
    def ensure_init(self):
        """run package initialisers once per path (they are concrete and cheap)"""
        for name in self.prog.inits:
            if name.startswith('github.com/onflow/crypto'):
                self.call(name, [])

    def explore(self, entry, args_fn=None, on_path=None, run_init=True, max_paths=None):
        """explore all paths of function `entry`; returns list of path records"""
        work = [[]]
        records = []
        maxp = max_paths or self.max_paths
        while work:
            if len(records) >= maxp:
                records.append({'status': 'unsupported', 'info': 'max_paths reached, %d pending' % len(work), 'trace': []})
                break
            prefix = work.pop()
            self.reset_path(prefix)
            rec = {'status': 'ok', 'info': None}
            try:
                if run_init:
                    self.ensure_init()
                args = args_fn(self) if args_fn else []
                rec['ret'] = self.call(entry, args)
            except PathEnd as pe:
                rec['status'], rec['info'] = pe.status, pe.info
            except GoPanic as gp:
                rec['status'], rec['info'] = 'panic', {'kind': gp.kind, 'msg': gp.msg, 'pos': gp.pos}
                rec['model'] = self.get_model_values()
            except Unsupported as u:
                rec['status'], rec['info'] = 'unsupported', str(u)
            except z3.Z3Exception as ze:
                rec['status'], rec['info'] = 'unsupported', 'z3: ' + str(ze)
            rec['trace'] = list(self.trace)
            rec['events'] = list(self.events)
            if rec['status'] == 'ok' and self.want_models > 0 and any(e[0] == 'reach' for e in self.events):
                self.model_unrefined = False
                mv = self.get_model_values()
                if mv is not None and not self.model_unrefined:
                    rec['model'] = mv
                    self.want_models -= 1
            if self.inconclusive:
                rec['inconclusive'] = list(self.inconclusive)
            self.stats.paths += 1
            work.extend(self.pending)
            if on_path:
                on_path(self, rec)
            records.append(rec)
        return records

    def get_model_values(self):
        """concrete values for all nondets on the current path"""
        r = self.check()
        if r != z3.sat:
            return None
        m = self.solver.model()
        keep = []
        for ref in self.model_refiners:
            try:
                extra = ref(self, m, None)
            except Exception:
                if os.environ.get('VERIF_DEBUG'):
                    import traceback; traceback.print_exc()
                extra = None
            if extra:
                self.solver.push()
                for e in extra:
                    self.solver.add(e)
                if self.check() == z3.sat:
                    m = self.solver.model()
                    keep += list(extra)
                else:
                    # the path needs an instance of an uninterpreted predicate that the refiner cannot make real
                    # (e.g. a curve point with a one-byte x): its model is no translator-validation witness
                    self.model_unrefined = True
                self.solver.pop()
        try:
            m = self.diversify(m, keep)
        except z3.Z3Exception:
            pass
        return self.model_tape(m)

    def dump_for_diff(self, c, msg):
        """write the discharged query (path condition + negated assertion, expected unsat) as SMT-LIB2 for the
        cross-check with other solvers; a pseudo-random sample per case, bounded in size"""
        import hashlib, random as _r
        k = self.stats.assert_queries
        if self.diff_files and _r.Random(self.seed * 7919 + k).random() > 0.08:
            return      # the first discharged query of a case is always written, later ones are sampled
        try:
            s2 = z3.Solver()
            for a in self.solver.assertions():
                s2.add(a)
            s2.add(z3.Not(c))
            txt = s2.to_smt2()
        except Exception:
            return
        if len(txt) > 3000000:
            return
        self.diff_budget -= 1
        name = hashlib.md5((msg + str(k)).encode()).hexdigest()[:10]
        path = os.path.join(self.diff_dir, name + '.smt2')
        with open(path, 'w') as f:
            f.write('; expected: unsat ; %s\n' % msg.replace('\n', ' '))
            f.write('(set-logic ALL)\n')
            f.write(txt)
        self.diff_files.append(path)

    def diversify(self, m, extra=()):
        """counterexample models: prefer pseudo-random non-zero values for the inputs the violation does not
        depend on (z3 assigns 0 to everything it may, and all-zero inputs often hide a defect natively:
        truncated copies of zeros, equal keys, ...). Greedy over chunks of preferences; bounded effort."""
        import random as _r
        rng = _r.Random(1000003 * (self.seed + 1))
        prefs = []
        for kind, c, w in self.nondets:
            if w <= 64 and not isinstance(c, int) and z3.is_bv(c):
                prefs.append(c == z3.BitVecVal(rng.randrange(1, 1 << w) if kind != 'bool' else rng.randrange(0, 2), w))
        if not prefs:
            return m
        accepted = []
        k = max(1, (len(prefs) + 3) // 4)
        saved_to = self.timeout_ms
        for i in range(0, len(prefs), k):
            chunk = prefs[i:i + k]
            self.solver.push()
            try:
                self.solver.set('timeout', 2000)
                for e in extra:
                    self.solver.add(e)
                for e in accepted + chunk:
                    self.solver.add(e)
                if self.solver.check() == z3.sat:
                    m = self.solver.model()
                    accepted += chunk
            finally:
                self.solver.set('timeout', saved_to)
                self.solver.pop()
        return m

    def model_tape(self, m):
        out = []
        for kind, c, w in self.nondets:
            v = m.eval(c, model_completion=True).as_long()
            if w > 64:
                for i in range(w // 64 - 1, -1, -1):      # most significant word first
                    out.append((v >> (64 * i)) & mask(64))
            else:
                out.append(v)
        return out

    # harness primitives -----------------------------------------------------
    def verif_assert(self, c, msg):
        self.stats.assert_queries += 1
        if c is True:
            return
        if c is False:
            vals = self.get_model_values()
            if vals is None:
                return   # path infeasible after all
            raise PathEnd('assert_fail', {'msg': msg, 'model': vals})
        r = self.check(z3.Not(c))
        if r == z3.unsat and self.diff_budget > 0:
            self.dump_for_diff(c, msg)
        if r == z3.sat:
            m = self.solver.model()
            # model refiners (e.g. the algebraic model) try to find a counterexample that does not depend
            # on values the harness cannot control natively, so that the native replay can reproduce it
            keep = []
            for ref in self.model_refiners:
                extra = ref(self, m, z3.Not(c))
                if extra:
                    self.solver.push()
                    self.solver.add(z3.Not(c))
                    for e in extra:
                        self.solver.add(e)
                    if self.check() == z3.sat:
                        m = self.solver.model()
                        keep += list(extra)
                    self.solver.pop()
            try:
                m = self.diversify(m, [z3.Not(c)] + keep)
            except z3.Z3Exception:
                pass
            vals = self.model_tape(m)
            raise PathEnd('assert_fail', {'msg': msg, 'model': vals})
        if r == z3.unknown:
            self.inconclusive.append('assert unknown: ' + msg)
        self.add(c)
