# Algebraic ("generic group") model of BLS12-381 used by the L2 checks (DESIGN 2.5 / 2.6).
# Field values that get multiplied together are exact multivariate polynomials over Z_r kept by
# the encoder; a group element is (dlog polynomial, torsion polynomial); G_T is the exponent
# group. The solver sees every distinct monomial as one integer unknown and every polynomial
# condition as a linear congruence. Contracts are installed at the BLST boundary; the repository's
# own C glue between them (sum loops, offset bookkeeping, aggregation tree, multi-pairing batching,
# Lagrange coefficients) is executed from LLVM IR.
import z3
from .core import *
from . import cstubs
from .cstubs import rd, wr, P381, R255, RMONT384

R = R255
RINV256 = pow(1 << 256, -1, R)
BV = z3.BitVecSort
LIMB1 = z3.Function('g1_limb', BV(64), BV(8), BV(64))
LIMB2 = z3.Function('g2_limb', BV(64), BV(8), BV(64))
LIMBT = z3.Function('gt_limb', BV(64), BV(8), BV(64))
ENC1 = z3.Function('g1_encode', BV(64), BV(384))
ENC2 = z3.Function('g2_encode', BV(64), BV(768))
DECST1 = z3.Function('g1_decode_status', BV(384), BV(32))
DECST2 = z3.Function('g2_decode_status', BV(768), BV(32))

# ---------------------------------------------------------------- polynomials over Z_r

class Poly:
    __slots__ = ('t',)
    def __init__(self, t=None):
        self.t = t or {}
    @staticmethod
    def const(c):
        c %= R
        return Poly({(): c} if c else {})
    @staticmethod
    def gen(name):
        return Poly({(name,): 1})
    def is_zero(self):
        return not self.t
    def is_const(self):
        return not self.t or list(self.t.keys()) == [()]
    def cval(self):
        return self.t.get((), 0)
    def key(self):
        return tuple(sorted(self.t.items()))
    def __add__(self, o):
        t = dict(self.t)
        for m, c in o.t.items():
            v = (t.get(m, 0) + c) % R
            if v:
                t[m] = v
            else:
                t.pop(m, None)
        return Poly(t)
    def scale(self, k):
        k %= R
        if k == 0:
            return Poly()
        return Poly({m: c * k % R for m, c in self.t.items()})
    def __neg__(self):
        return self.scale(R - 1)
    def __sub__(self, o):
        return self + (-o)
    def __mul__(self, o):
        t = {}
        for m1, c1 in self.t.items():
            for m2, c2 in o.t.items():
                m = tuple(sorted(m1 + m2))
                v = (t.get(m, 0) + c1 * c2) % R
                if v:
                    t[m] = v
                else:
                    t.pop(m, None)
        return Poly(t)
    def __repr__(self):
        if not self.t:
            return '0'
        def cs(c):
            return str(c) if c < (1 << 40) else ('-' + str(R - c) if R - c < (1 << 40) else hex(c)[:12] + '..')
        return ' + '.join((cs(c) + ('*' if m else '') + '*'.join(m)) for m, c in sorted(self.t.items()))

ZERO = Poly()
ONE = Poly.const(1)

class TermMap:
    """dictionary keyed by z3 terms (structural equality); keeps the keys alive"""
    def __init__(self):
        self.d = {}
    def _k(self, t):
        return ('i', t) if isinstance(t, int) else ('t', t.hash())
    def get(self, t, default=None):
        for (k, v) in self.d.get(self._k(t), ()):
            if (isinstance(t, int) and k == t) or (not isinstance(t, int) and not isinstance(k, int) and k.eq(t)):
                return v
        return default
    def set(self, t, v):
        self.d.setdefault(self._k(t), []).append((t, v))

def G(ex):
    st = ex.pstate.get('galg')
    if st is None:
        st = ex.pstate['galg'] = {'mvars': {}, 'elems': {}, 'byid': {}, 'sc': {}, 'scbykey': {}, 'dec': TermMap(), 'atoms': TermMap(), 'gens': 0, 'h2c': TermMap(), 'encoded': TermMap()}
    return st

def mvar(ex, mono):
    st = G(ex)
    v = st['mvars'].get(mono)
    if v is None:
        v = z3.Int('m_' + '*'.join(mono))
        st['mvars'][mono] = v
        ex.add(z3.And(v >= 0, v < R))
        if len(mono) >= 2:
            # a product vanishes iff one of its factors does (no zero divisors); x*1 = x
            head, rest = (mono[0],), mono[1:]
            a, b = mvar(ex, head), mvar(ex, rest)
            ex.add((v == 0) == z3.Or(a == 0, b == 0))
            ex.add(z3.Implies(a == 1, v == b))
            ex.add(z3.Implies(b == 1, v == a))
            # cancellation: c*y = c*z  iff  c = 0 or y = z   (for monomials that differ in exactly one generator)
            from collections import Counter
            cm = Counter(mono)
            for m2, v2 in list(st['mvars'].items()):
                if len(m2) == len(mono) and m2 != mono:
                    c2 = Counter(m2)
                    d1, d2 = cm - c2, c2 - cm
                    if sum(d1.values()) == 1 and sum(d2.values()) == 1:
                        g1 = next(iter(d1)); g2 = next(iter(d2))
                        common = tuple(sorted((cm - d1).elements()))
                        ex.add((v == v2) == z3.Or(mvar(ex, common) == 0, mvar(ex, (g1,)) == mvar(ex, (g2,))))
    return v

def lin(ex, p):
    terms = []
    for m, c in p.t.items():
        terms.append(z3.IntVal(c) if m == () else z3.IntVal(c) * mvar(ex, m))
    return z3.Sum(terms) if terms else z3.IntVal(0)

def is_formal(g):
    return g.startswith('h') and not g.startswith('hx')

def zero_cond(ex, p):
    """truth value (python bool or z3 Bool) of  p == 0 in Z_r.
    Discrete logs of hash-to-curve outputs are formal indeterminates (random-oracle / generic-group
    assumption): a polynomial in them vanishes iff every coefficient does -- unless the polynomial also
    involves points decoded from adversarial bytes, which may depend on the hash values."""
    if p.is_zero():
        return True
    if p.is_const():
        return False
    gens = set(g for m in p.t for g in m)
    if any(is_formal(g) for g in gens) and not any(g.startswith('dec') for g in gens):
        groups = {}
        for mono, c in p.t.items():
            hp = tuple(g for g in mono if is_formal(g))
            rest = tuple(g for g in mono if not is_formal(g))
            groups.setdefault(hp, {})[rest] = c
        r = True
        for hp, t in groups.items():
            r = band(r, zero_cond(ex, Poly(t)))
            if r is False:
                return False
        return r
    if len(p.t) == 1:
        (m, c), = p.t.items()
        e = mvar(ex, m) == 0
    else:
        e = lin(ex, p) % R == 0
    G(ex).setdefault('zconds', []).append((e, p))
    return e

def controllable(g):
    return g.startswith('fr')

def refine_model(ex, m, neg):
    """extra constraints asking that every polynomial condition that is true in model m holds
    *identically* in the generators the harness cannot choose natively (hash outputs, decoded points):
    the coefficient of every monomial in those generators must vanish."""
    st = ex.pstate.get('galg')
    if not st:
        return None
    extra = []
    seen = set()
    for (e, p) in st.get('zconds', []):
        if e.get_id() in seen:
            continue
        seen.add(e.get_id())
        try:
            val = z3.is_true(m.eval(e, model_completion=True))
        except z3.Z3Exception:
            continue
        if not val:
            continue
        # group by the uncontrollable part of each monomial
        groups = {}
        for mono, c in p.t.items():
            unc = tuple(g for g in mono if not controllable(g))
            con = tuple(g for g in mono if controllable(g))
            groups.setdefault(unc, []).append((con, c))
        for unc, terms in groups.items():
            if not unc:
                continue
            parts = []
            ok = True
            for con, c in terms:
                if len(con) == 0:
                    parts.append(z3.IntVal(c))
                elif len(con) == 1:
                    parts.append(z3.IntVal(c) * mvar(ex, con))
                else:
                    ok = False
            if ok:
                extra.append(z3.Sum(parts) % R == 0)
    return extra

def refine_products(ex, m, neg):
    """Counterexamples in the polynomial domain: the solver treats every product monomial as an independent
    unknown, so its model need not be consistent with real field arithmetic. Fix random values for all scalar
    generators the harness chooses ('fr...') except one, express every monomial through that one (linear),
    and let the solver solve for it: the resulting model is a real assignment and replays natively."""
    st = ex.pstate.get('galg')
    if not st:
        return None
    import random as _r
    monos = list(st['mvars'].keys())
    gens = sorted(set(g for mo in monos for g in mo if controllable(g)), key=lambda g: int(''.join(ch for ch in g if ch.isdigit()) or 0))
    if len(gens) < 2 or not any(len(mo) >= 2 for mo in monos):
        return None
    rng = _r.Random(ex.seed + 4242)
    for free in reversed(gens[-3:]):
        vals = {g: rng.randrange(2, 1 << 62) for g in gens if g != free}
        extra = []
        ok = True
        for mo in monos:
            if not all(controllable(g) for g in mo):
                continue          # monomials with hash / decoded generators are handled by refine_model
            k = sum(1 for g in mo if g == free)
            c = 1
            for g in mo:
                if g != free:
                    c = c * vals[g] % R
            v = mvar(ex, mo)
            if k == 0:
                extra.append(v == c)
            elif k == 1:
                extra.append(v == (z3.IntVal(c) * mvar(ex, (free,))) % R)
            else:
                ok = False
                break
        if not ok:
            continue
        ex.solver.push()
        try:
            if neg is not None:
                ex.solver.add(neg)
            for e in extra:
                ex.solver.add(e)
            r = ex.solver.check()
        finally:
            ex.solver.pop()
        if r == z3.sat:
            return extra
    return None

def new_gen(ex, prefix):
    st = G(ex)
    st['gens'] += 1
    return '%s%d' % (prefix, st['gens'])

# ---------------------------------------------------------------- scalars in memory

def sc_write(ex, p, poly):
    """store polynomial `poly` as an Fr value (4 limbs)"""
    if poly.is_const():
        wr(ex, p, 4, poly.cval())
        return
    wr(ex, p, 4, sc_term(ex, poly))

def sc_term(ex, poly):
    if poly.is_const():
        return poly.cval()
    st = G(ex)
    k = poly.key()
    c = st['scbykey'].get(k)
    if c is None:
        c = z3.BitVec('sc!%d' % len(st['sc']), 256)
        st['sc'][str(c)] = poly
        st['scbykey'][k] = c
        # the limbs hold a reduced value that is zero iff the polynomial vanishes
        ex.add(z3.ULT(c, z3.BitVecVal(R, 256)))
        zc = zero_cond(ex, poly)
        ex.add((c == 0) == (z3.BoolVal(zc) if isinstance(zc, bool) else zc))
        # two stored values are equal iff their polynomials agree (only needed when scalar bytes are compared
        # outside the vec_is_equal / vec_is_zero contracts)
        for name, p2 in (list(st['sc'].items()) if getattr(ex, 'galg_scalar_eq_axioms', False) else []):
            if name != str(c):
                dc = zero_cond(ex, poly - p2)
                ex.add((c == z3.BitVec(name, 256)) == (z3.BoolVal(dc) if isinstance(dc, bool) else dc))
    return c

def sc_of_term(ex, t):
    """polynomial of a 256-bit value read from memory"""
    if isinstance(t, int):
        return Poly.const(t)
    t = simp(t)
    if isinstance(t, int):
        return Poly.const(t)
    st = G(ex)
    if z3.is_const(t) and str(t) in st['sc']:
        return st['sc'][str(t)]
    if getattr(ex, 'galg_byte_atoms', False):
        bp = byte_poly(ex, t)
        if bp is not None:
            return bp
    # an arbitrary bit-vector term (e.g. bytes of a symbolic input): one atomic generator per term
    g = st['atoms'].get(t)
    if g is None:
        names = set()
        def collect(e):
            if z3.is_const(e) and e.decl().kind() == z3.Z3_OP_UNINTERPRETED:
                names.add(str(e))
            for c in e.children():
                collect(c)
        collect(t)
        # values derived only from crypto/rand bytes are independent random coefficients: formal
        # indeterminates (Schwartz-Zippel / genericity assumption, see C03)
        g = new_gen(ex, 'hrho' if names and all('_rand' in n for n in names) else 'bv')
        st['atoms'].set(t, g)
        st.setdefault('atomterm', {})[g] = t
        # link the generator with the bit-vector it stands for (the value is reduced by the caller's contract)
        if not getattr(ex, 'galg_unlinked_atoms', False):
            ex.add(mvar(ex, (g,)) == z3.BV2Int(t) % R)
    return Poly.gen(g)

def byte_atom(ex, b):
    """generator standing for one symbolic byte (value in [0, 255], exact in Z_r)"""
    if isinstance(b, int):
        return Poly.const(b)
    st = G(ex)
    g = st['atoms'].get(b)
    if g is None:
        opaque = z3.is_app(b) and b.num_args() > 0 and b.decl().kind() == z3.Z3_OP_UNINTERPRETED
        # bytes produced by uninterpreted hash / KDF functions are formal indeterminates (random-oracle
        # abstraction, as for hash-to-curve): a linear form in them vanishes iff all coefficients do
        g = new_gen(ex, 'hby' if opaque else 'by')
        st['atoms'].set(b, g)
        st.setdefault('atomterm', {})[g] = b
        if not opaque:
            v = mvar(ex, (g,))
            ex.add(v <= 255)
            ex.add(b == z3.Int2BV(v, 8))
    return Poly.gen(g)

def byte_poly(ex, t):
    """a bit-vector that is a concatenation of whole bytes (constants, 8-bit terms) is the exact linear form
    sum 256^k * byte_k over Z_r (no reduction is lost: the polynomial domain is arithmetic mod r)"""
    parts = t.children() if z3.is_app_of(t, z3.Z3_OP_CONCAT) else [t]
    flat = []
    for c in parts:
        if z3.is_bv_value(c):
            flat.append(c)
        elif c.size() == 8:
            flat.append(c)
        else:
            return None
    acc = ZERO
    for c in flat:          # most significant first
        w = c.size()
        if z3.is_bv_value(c):
            acc = acc.scale(pow(2, w, R)) + Poly.const(c.as_long())
        else:
            acc = acc.scale(256) + byte_atom(ex, c)
    return acc

def os2ip_poly(ex, bs):
    acc = ZERO
    for b in bs:
        acc = acc.scale(256) + byte_atom(ex, b if isinstance(b, int) else simp(tobv(b, 8)))
    return acc

def sc_read(ex, p):
    return sc_of_term(ex, rd(ex, p, 4))

# ---------------------------------------------------------------- group elements

class GE:
    __slots__ = ('kind', 'dlog', 'tors', 'aff', 'id', 'name')
    def __init__(self, kind, dlog, tors, aff):
        self.kind, self.dlog, self.tors, self.aff = kind, dlog, tors, aff

NL = {'g1': 18, 'g2': 36}
XL = {'g1': 6, 'g2': 12}
LIMB = {'g1': LIMB1, 'g2': LIMB2}

def elem(ex, kind, dlog, tors=ZERO, aff=True):
    st = G(ex)
    key = (kind, dlog.key(), tors.key(), aff)
    e = st['elems'].get(key)
    if e is None:
        e = GE(kind, dlog, tors, aff)
        e.name = '%s!%d' % (kind, len(st['elems']))
        e.id = z3.BitVec(e.name, 64)
        if aff and getattr(ex, 'galg_coord_axioms', False):
            # (only needed when points are Go map keys, C02) affine coordinates determine the group element: two affine representatives have equal
            # (x, y) limbs iff they are the same element
            F, xl = LIMB[kind], XL[kind]
            for e2 in st['elems'].values():
                if e2.kind == kind and e2.aff:
                    same = band(zero_cond(ex, dlog - e2.dlog), zero_cond(ex, tors - e2.tors))
                    limbs = z3.And(*[F(e.id, z3.BitVecVal(k, 8)) == F(e2.id, z3.BitVecVal(k, 8)) for k in range(2 * xl)])
                    ex.add(limbs == (z3.BoolVal(same) if isinstance(same, bool) else same))
        st['elems'][key] = e
        st['byid'][e.name] = e
    return e

def is_identity_cond(ex, e):
    return band(zero_cond(ex, e.dlog), zero_cond(ex, e.tors))

def ge_write(ex, p, e):
    """store element e at C pointer p"""
    kind = e.kind
    n, xl = NL[kind], XL[kind]
    F = LIMB[kind]
    if not isinstance(p, Ptr) or p.obj is None:
        raise GoPanic('c-null-deref', 'point write')
    off = p.off
    if not isinstance(off, int):
        off = ex.concretize(off, 0, p.obj.size, 'point pointer')
    ex.mem.check(p.obj, off, 8 * n, 'write')
    c0 = is_identity_cond(ex, e)
    one = [(RMONT384 >> (64 * i)) & mask(64) for i in range(6)] + [0] * (xl - 6)
    for k in range(n):
        l = F(e.id, z3.BitVecVal(k, 8))
        if k >= 2 * xl:
            zi = k - 2 * xl
            nz = one[zi] if e.aff else l
            if c0 is True:
                l = 0
            elif c0 is False:
                l = nz
            else:
                l = simp(z3.If(c0, z3.BitVecVal(0, 64), tobv(nz, 64)))
        ex.mem.write(p.obj, off + 8 * k, 8, l)
    if not e.aff and c0 is not True:
        # a Jacobian representative of a finite point has Z != 0 and (generically) Z != 1
        zs = [F(e.id, z3.BitVecVal(k, 8)) for k in range(2 * xl, n)]
        nzc = z3.Or(*[z != 0 for z in zs])
        n1c = z3.Or(*[z != one[i] for i, z in enumerate(zs)])
        ex.add(z3.And(nzc, n1c))

def known_consts(ex, L):
    st = G(ex)
    kc = st.get('consts')
    if kc is None:
        kc = st['consts'] = {}
        for name, kind, d in (('@BLS12_381_G1', 'g1', 1), ('@BLS12_381_NEG_G1', 'g1', R - 1), ('@BLS12_381_G2', 'g2', 1), ('@BLS12_381_NEG_G2', 'g2', R - 1)):
            if name in L.mod.globals:
                p = L.gptr(ex, name)
                ls = tuple(ex.mem.read(p.obj, 8 * k, 8) or 0 for k in range(NL[kind]))
                kc[(kind, ls[:2 * XL[kind]])] = d
    return kc

def ge_read(ex, L, p, kind, affine_only=False):
    """element stored at p (Jacobian x,y,z; or affine x,y when affine_only)"""
    n, xl = NL[kind], XL[kind]
    F = LIMB[kind]
    if not isinstance(p, Ptr) or p.obj is None:
        raise GoPanic('c-null-deref', 'point read')
    off = p.off
    if not isinstance(off, int):
        off = ex.concretize(off, 0, p.obj.size, 'point pointer')
    nn = 2 * xl if affine_only else n
    ex.mem.check(p.obj, off, 8 * nn, 'read')
    ls = []
    for k in range(nn):
        v = ex.mem.read(p.obj, off + 8 * k, 8)
        ls.append(0 if v is None else v)
    if not affine_only and all(isinstance(l, int) and l == 0 for l in ls[2 * xl:]):
        return elem(ex, kind, ZERO, ZERO, True)
    l0 = ls[0]
    if not isinstance(l0, int) and z3.is_app(l0) and l0.decl().eq(F):
        e = G(ex)['byid'].get(str(l0.arg(0)))
        if e is not None:
            return e
    if all(isinstance(l, int) for l in ls[:2 * xl]):
        d = known_consts(ex, L).get((kind, tuple(ls[:2 * xl])))
        if d is not None:
            return elem(ex, kind, Poly.const(d), ZERO, True)
        if all(l == 0 for l in ls):
            return elem(ex, kind, ZERO, ZERO, True)
    raise Unsupported('unrecognised %s point in memory: %s' % (kind, str(ls[0])[:80]))

# ---- serialisation contracts (what C05 establishes for the real E?_read/write_bytes)

ENC = {'g1': (ENC1, 384, DECST1), 'g2': (ENC2, 768, DECST2)}

def affine_of(ex, e):
    return e if e.aff else elem(ex, e.kind, e.dlog, e.tors, True)

def enc_bytes(ex, e):
    """byte terms of the canonical compressed encoding of e"""
    F, w, _ = ENC[e.kind]
    nb = w // 8
    c0 = is_identity_cond(ex, e)
    if e.name in ex.pstate.get('nonident', ()):
        c0 = False
    inf = [0xC0] + [0] * (nb - 1)
    if c0 is True:
        return inf
    a = affine_of(ex, e)
    t = F(a.id)
    # header: compression bit set, infinity bit clear
    ex.add(z3.Extract(w - 1, w - 2, t) == 2)
    bs = [simp(z3.Extract(w - 1 - 8 * i, w - 8 - 8 * i, t)) for i in range(nb)]
    st = G(ex)
    if st['encoded'].get(t) is None:
        # the encoding is injective on group elements (instance axioms against the elements encoded so far)
        for lst in st['encoded'].d.values():
            for (t2, a2) in lst:
                if a2.kind == a.kind and a2 is not a:
                    same = band(zero_cond(ex, a.dlog - a2.dlog), zero_cond(ex, a.tors - a2.tors))
                    ex.add((t == t2) == (z3.BoolVal(same) if isinstance(same, bool) else same))
        st['encoded'].set(t, a)
    if c0 is False:
        return bs
    return [ite(c0, inf[i], bs[i], 8) for i in range(nb)]

def st_write_bytes(kind):
    def f(L, ex, a, I):
        out, p = a
        e = ge_read(ex, L, p, kind)
        c0 = is_identity_cond(ex, e)
        if not isinstance(c0, bool):
            if ex.decide(c0):
                e = elem(ex, kind, ZERO, ZERO, True)
            else:
                ex.pstate.setdefault('nonident', set()).add(e.name)
        bs = enc_bytes(ex, e)
        off = out.off
        if not isinstance(off, int):
            off = ex.concretize(off, 0, out.obj.size, 'write pointer')
        ex.mem.check(out.obj, off, len(bs), 'write')
        for i, b in enumerate(bs):
            ex.mem.write(out.obj, off + i, 1, b)
    return f

def st_read_bytes(kind):
    F, w, ST = ENC[kind]
    nb = w // 8
    def f(L, ex, a, I):
        out, inp, n = a
        if not isinstance(n, int):
            raise Unsupported('symbolic length')
        if signed(n, 32) != nb:
            return 2     # BAD_ENCODING
        off = inp.off
        if not isinstance(off, int):
            off = ex.concretize(off, 0, inp.obj.size, 'read pointer')
        ex.mem.check(inp.obj, off, nb, 'read')
        bs = [ex.mem.byte_at(inp.obj, off + i) for i in range(nb)]
        st = G(ex)
        if all(isinstance(b, int) for b in bs):
            if bs[0] == 0xC0 and not any(bs[1:]):
                ge_write(ex, out, elem(ex, kind, ZERO, ZERO, True))
                return 0
            if bs[0] & 0x80 == 0 or (bs[0] & 0x40):
                return 2
            raise Unsupported('concrete non-infinity point encoding')
        B = simp(z3.Concat(*[tobv(b, 8) for b in bs]))
        # bytes produced by the model's own encoder decode back to the same element
        if z3.is_app(B) and B.decl().eq(F):
            e = st['encoded'].get(B)
            if e is not None:
                ge_write(ex, out, e)
                return 0
        # flipping the sort bit (0x20 of the first byte) of a canonical non-infinity encoding gives the canonical
        # encoding of the negated point (no point of E1 / E2 has y = 0): recognised for the encodings produced on
        # this path
        if st['dec'].get(B) is None and not (z3.is_app(B) and B.decl().eq(F)):
            MASK = z3.BitVecVal(0x20 << (w - 8), w)
            for lst in list(st['encoded'].d.values()):
                for (t2, e2) in lst:
                    if e2.kind != kind or isinstance(t2, int) or t2.size() != w:
                        continue
                    if ex.must(B == (t2 ^ MASK)):
                        ne = elem(ex, kind, -e2.dlog, -e2.tors, True)
                        ex.add(F(ne.id) == B)
                        if st['encoded'].get(F(ne.id)) is None:
                            st['encoded'].set(F(ne.id), ne)
                        ge_write(ex, out, ne)
                        return 0
        e = st['dec'].get(B)
        if e is None:
            gd, gt = new_gen(ex, 'dec'), new_gen(ex, 'tor')
            e = elem(ex, kind, Poly.gen(gd), Poly.gen(gt), True)
            st['dec'].set(B, e)
        status = ST(B)
        if not ex.decide(status == 0):
            return simp(status)
        # accepted strings are canonical: the infinity encoding, or the encoding of the decoded point
        inf = z3.BitVecVal(0xC0 << (w - 8), w)
        if ex.decide(B == inf):
            ge_write(ex, out, elem(ex, kind, ZERO, ZERO, True))
            return 0
        ex.add(z3.Not(is_identity_z3(ex, e)))
        ex.add(F(e.id) == B)
        if st['encoded'].get(F(e.id)) is None:
            st['encoded'].set(F(e.id), e)
        ge_write(ex, out, e)
        return 0
    return f

def is_identity_z3(ex, e):
    c = is_identity_cond(ex, e)
    return z3.BoolVal(c) if isinstance(c, bool) else c

# ---- BLST boundary: curve operations

def st_dadd(kind):
    def f(L, ex, a, I):
        out, p, q = a[0], a[1], a[2]
        x, y = ge_read(ex, L, p, kind), ge_read(ex, L, q, kind)
        ge_write(ex, out, elem(ex, kind, x.dlog + y.dlog, x.tors + y.tors, False))
    return f

def st_dadd_affine(kind):
    """POINTonE?_dadd_affine(out, p, q): mixed addition; BLST's contract requires q in affine form (Z = 1).
    A second operand that is not known to be affine gives an unrelated group element (fresh discrete log)."""
    def f(L, ex, a, I):
        out, p, q = a[0], a[1], a[2]
        x, y = ge_read(ex, L, p, kind), ge_read(ex, L, q, kind)
        if y.aff:
            ge_write(ex, out, elem(ex, kind, x.dlog + y.dlog, x.tors + y.tors, False))
        else:
            g = new_gen(ex, 'gx')
            mvar(ex, (g,))
            ge_write(ex, out, elem(ex, kind, Poly.gen(g), ZERO, False))
    return f

def st_double(kind):
    def f(L, ex, a, I):
        x = ge_read(ex, L, a[1], kind)
        ge_write(ex, a[0], elem(ex, kind, x.dlog.scale(2), x.tors.scale(2), False))
    return f

def st_cneg(kind):
    def f(L, ex, a, I):
        p, flag = a
        if not isinstance(flag, int):
            raise Unsupported('symbolic cneg flag')
        if flag:
            x = ge_read(ex, L, p, kind)
            ge_write(ex, p, elem(ex, kind, -x.dlog, -x.tors, x.aff))
    return f

def scalar_from_pow256(ex, p):
    """polynomial of a 32-byte little-endian scalar (pow256)"""
    off = p.off
    if not isinstance(off, int):
        off = ex.concretize(off, 0, p.obj.size, 'scalar pointer')
    ex.mem.check(p.obj, off, 32, 'read')
    bs = [ex.mem.byte_at(p.obj, off + i) for i in range(32)]
    if all(isinstance(b, int) for b in bs):
        return Poly.const(sum(b << (8 * i) for i, b in enumerate(bs)))
    t = simp(z3.Concat(*[tobv(b, 8) for b in reversed(bs)]))
    return sc_of_term(ex, t)

def st_mult(kind):
    def f(L, ex, a, I):
        out, p, sc = a[0], a[1], a[2]
        x = ge_read(ex, L, p, kind)
        s = scalar_from_pow256(ex, sc)
        ge_write(ex, out, elem(ex, kind, x.dlog * s, x.tors * s, False))
    return f

def st_from_jacobian(kind):
    def f(L, ex, a, I):
        x = ge_read(ex, L, a[1], kind)
        ge_write(ex, a[0], elem(ex, kind, x.dlog, x.tors, True))
    return f

def st_in_group(kind):
    def f(L, ex, a, I):
        x = ge_read(ex, L, a[0], kind)
        return cstubs.b2l(zero_cond(ex, x.tors))
    return f

def st_is_equal(kind):
    def f(L, ex, a, I):
        x, y = ge_read(ex, L, a[0], kind), ge_read(ex, L, a[1], kind)
        return cstubs.b2l(band(zero_cond(ex, x.dlog - y.dlog), zero_cond(ex, x.tors - y.tors)))
    return f

def st_map_to_g1(L, ex, a, I):
    """hash-to-curve: a torsion-free point whose discrete log is one generator per distinct (u0,u1)"""
    out, u, v = a
    ut, vt = rd(ex, u, 6), rd(ex, v, 6)
    key = z3.Concat(tobv(ut, 384), tobv(vt, 384))
    st = G(ex)
    g = st['h2c'].get(key)
    if g is None and getattr(ex, 'galg_h2c_fork', False):
        # hash-to-curve inputs that are arbitrary bytes (a caller-supplied hasher): the path forks on whether this
        # input equals an earlier one; equal inputs share the point (distinct generators are formal indeterminates,
        # which would otherwise never coincide)
        for lst in list(st['h2c'].d.values()):
            for (k2, g2) in lst:
                if g is None and ex.decide(key == k2):
                    g = g2
        if g is not None:
            ge_write(ex, out, elem(ex, 'g1', Poly.gen(g), ZERO, False))
            return
    if g is None:
        g = new_gen(ex, 'h')
        ex.add(mvar(ex, (g,)) != 0)      # H(m) is not the identity (probability 1/r event excluded)
        # random-oracle abstraction: equal inputs give equal points, different inputs give points with
        # different discrete logs (collisions have probability 1/r)
        for lst in st['h2c'].d.values():
            for (k2, g2) in lst:
                ex.add((key == k2) == (mvar(ex, (g,)) == mvar(ex, (g2,))))
        st['h2c'].set(key, g)
    ge_write(ex, out, elem(ex, 'g1', Poly.gen(g), ZERO, False))

def st_g1_complement(L, ex, a, I):
    """unsafe_map_bytes_to_G1complement (test helper of the repository): a point of E1 outside G1"""
    # the helper multiplies a random curve point by r: the prime-order part vanishes, what is left is a
    # non-trivial cofactor-torsion point
    gt = new_gen(ex, 'ct')
    ex.add(mvar(ex, (gt,)) != 0)
    ge_write(ex, a[0], elem(ex, 'g1', ZERO, Poly.gen(gt), False))

def st_g2_complement(L, ex, a, I):
    """unsafe_map_bytes_to_G2complement (test helper of the repository): a point of E2 outside G2"""
    gt = new_gen(ex, 'ct')
    ex.add(mvar(ex, (gt,)) != 0)
    ge_write(ex, a[0], elem(ex, 'g2', ZERO, Poly.gen(gt), False))

def st_pippenger(kind):
    def f(L, ex, a, I):
        out, pts, n, scs, nbits, scratch = a
        if not isinstance(n, int):
            raise Unsupported('symbolic pippenger size')
        d, t = ZERO, ZERO
        for i in range(n):
            pp = ex.mem.read(pts.obj, pts.off + 8 * i, 8)
            sp = ex.mem.read(scs.obj, scs.off + 8 * i, 8)
            x = ge_read(ex, L, pp, kind, affine_only=True)
            s = scalar_from_pow256(ex, sp)
            d = d + x.dlog * s
            t = t + x.tors * s
        ge_write(ex, out, elem(ex, kind, d, t, False))
    return f

# ---- pairing

class GT:
    __slots__ = ('exp', 'id', 'name')

def gt_elem(ex, expo):
    st = G(ex)
    tab = st.setdefault('gt', {})
    k = expo.key()
    e = tab.get(k)
    if e is None:
        e = GT()
        e.exp = expo
        e.name = 'gt!%d' % len(tab)
        e.id = z3.BitVec(e.name, 64)
        tab[k] = e
        st.setdefault('gtbyid', {})[e.name] = e
    return e

def gt_one_limbs(ex, L):
    st = G(ex)
    o = st.get('gt_one')
    if o is None:
        p = L.gptr(ex, '@BLS12_381_Rx')
        o = st['gt_one'] = [ex.mem.read(p.obj, 8 * k, 8) or 0 for k in range(72)]
    return o

def gt_write(ex, L, p, e, final):
    one = gt_one_limbs(ex, L)
    c0 = zero_cond(ex, e.exp) if final else False
    ls = []
    for k in range(72):
        l = LIMBT(e.id, z3.BitVecVal(k + (0 if final else 100), 8))
        if c0 is True:
            l = one[k]
        elif c0 is not False:
            l = simp(z3.If(c0, z3.BitVecVal(one[k], 64), l))
        ls.append(l)
        ex.mem.write(p.obj, p.off + 8 * k, 8, l)
    if final and c0 is not True:
        # after the final exponentiation the value is one iff the exponent vanishes
        ex.add(z3.Or(*[LIMBT(e.id, z3.BitVecVal(k, 8)) != one[k] for k in range(72)]))

def gt_read(ex, L, p):
    l0 = ex.mem.read(p.obj, p.off, 8)
    if l0 is not None and not isinstance(l0, int):
        t = l0
        if z3.is_app(t) and t.decl().kind() == z3.Z3_OP_ITE:
            t = t.arg(2)
        if z3.is_app(t) and t.decl().eq(LIMBT):
            e = G(ex)['gtbyid'].get(str(t.arg(0)))
            if e is not None:
                return e
    ls = [ex.mem.read(p.obj, p.off + 8 * k, 8) or 0 for k in range(72)]
    if ls == gt_one_limbs(ex, L):
        return gt_elem(ex, ZERO)
    raise Unsupported('unrecognised GT element')

def st_miller_loop_n(L, ex, a, I):
    ret, q, p, n = a
    if not isinstance(n, int):
        raise Unsupported('symbolic miller loop size')
    expo = ZERO
    for i in range(n):
        x = ge_read(ex, L, p.add(96 * i), 'g1', affine_only=True)
        y = ge_read(ex, L, q.add(192 * i), 'g2', affine_only=True)
        # components of order coprime to r (cofactor torsion) pair to one: only the prime-order parts count
        expo = expo + x.dlog * y.dlog
    gt_write(ex, L, ret, gt_elem(ex, expo), False)

def st_mul_fp12(L, ex, a, I):
    ret, x, y = a
    gt_write(ex, L, ret, gt_elem(ex, gt_read(ex, L, x).exp + gt_read(ex, L, y).exp), False)

def st_final_exp(L, ex, a, I):
    ret, x = a
    gt_write(ex, L, ret, gt_read(ex, L, x), True)

# ---- scalar arithmetic: algebraic when an operand is a polynomial scalar

def _is_poly_term(ex, t):
    return (not isinstance(t, int)) and z3.is_const(t) and str(t) in G(ex)['sc']

def wrap256(orig, op):
    def f(L, ex, a, I):
        x = rd(ex, a[1], 4)
        y = rd(ex, a[2], 4) if op in ('add', 'sub', 'mul') else None
        alg = getattr(ex, 'galg_scalars', False)
        if not alg or (isinstance(x, int) and (y is None or isinstance(y, int))):
            return orig(L, ex, a, I)
        px = sc_of_term(ex, x)
        py = sc_of_term(ex, y) if y is not None else None
        if op == 'add': r = px + py
        elif op == 'sub': r = px - py
        elif op == 'mul': r = (px * py).scale(RINV256)
        elif op == 'sqr': r = (px * px).scale(RINV256)
        elif op == 'from': r = px.scale(RINV256)
        elif op == 'cneg':
            if not isinstance(a[2], int):
                raise Unsupported('symbolic cneg flag')
            r = -px if a[2] else px
        sc_write(ex, a[0], r)
    return f

def wrap_vec_cmp(orig, binary):
    """vec_is_zero / vec_is_equal on 32-byte polynomial scalars: decided in the polynomial domain"""
    def f(L, ex, a, I):
        n = a[2] if binary else a[1]
        if getattr(ex, 'galg_scalars', False) and isinstance(n, int) and n == 32:
            try:
                x = rd(ex, a[0], 4)
                y = rd(ex, a[1], 4) if binary else 0
            except GoPanic:
                return orig(L, ex, a, I)
            if _is_poly_term(ex, x) or _is_poly_term(ex, y):
                if (isinstance(x, int) or _is_poly_term(ex, x)) and (isinstance(y, int) or _is_poly_term(ex, y)):
                    return cstubs.b2l(zero_cond(ex, sc_of_term(ex, x) - sc_of_term(ex, y)))
        return orig(L, ex, a, I)
    return f

def st_inverse_alg(orig):
    def f(L, ex, a, I):
        x = rd(ex, a[1], 4)
        if isinstance(x, int):
            # ct_inverse_mod_256 followed by redc_mont_256 (Fr_inv_montg_eucl): modelled jointly
            inv = pow(x, -1, R) if x % R else 0
            wr(ex, a[0], 4, inv)
            wr(ex, a[0].add(32), 4, 0)
            a[0].obj.meta = dict(a[0].obj.meta or {}, inv_of=x)
            return
        return orig(L, ex, a, I)
    return f

def st_redc_alg(orig):
    def f(L, ex, a, I):
        m = a[1].obj.meta or {}
        if 'inv_of' in m:
            x = m['inv_of']
            # Fr_inv_montg_eucl(res, x): ct_inverse gives x^-1 * 2^512, the Montgomery reduction divides by
            # 2^256: the result is x^-1 * R (for x = D*R this is D^-1, as the caller's comment says)
            wr(ex, a[0], 4, pow(x, -1, R) * pow(1 << 256, 1, R) % R if x % R else 0)
            return
        return orig(L, ex, a, I)
    return f

def install(L):
    S = L.stubs
    for kind, pfx in (('g1', 'POINTonE1'), ('g2', 'POINTonE2')):
        S['@%s_dadd' % pfx] = st_dadd(kind)
        S['@%s_dadd_affine' % pfx] = st_dadd_affine(kind)
        S['@%s_double' % pfx] = st_double(kind)
        S['@%s_cneg' % pfx] = st_cneg(kind)
        S['@%s_from_Jacobian' % pfx] = st_from_jacobian(kind)
        S['@%s_is_equal' % pfx] = st_is_equal(kind)
        S['@%s_affine_on_curve' % pfx] = lambda L, ex, a, I: 1
    S['@POINTonE1_mult_glv'] = st_mult('g1')
    S['@POINTonE2_mult_gls'] = st_mult('g2')
    S['@POINTonE1_in_G1'] = st_in_group('g1')
    S['@POINTonE2_in_G2'] = st_in_group('g2')
    S['@map_to_g1'] = st_map_to_g1
    S['@unsafe_map_bytes_to_G1complement'] = st_g1_complement
    S['@unsafe_map_bytes_to_G2complement'] = st_g2_complement
    S['@blst_p1s_mult_pippenger'] = st_pippenger('g1')
    S['@blst_p1s_mult_pippenger_scratch_sizeof'] = lambda L, ex, a, I: 64
    S['@miller_loop_n'] = st_miller_loop_n
    S['@mul_fp12'] = st_mul_fp12
    S['@final_exp'] = st_final_exp
    S['@E1_read_bytes'] = st_read_bytes('g1')
    S['@E2_read_bytes'] = st_read_bytes('g2')
    S['@E1_write_bytes'] = st_write_bytes('g1')
    S['@E2_write_bytes'] = st_write_bytes('g2')
    for name, op in (('@add_mod_256', 'add'), ('@sub_mod_256', 'sub'), ('@mulx_mont_sparse_256', 'mul'), ('@mul_mont_sparse_256', 'mul'),
                     ('@sqrx_mont_sparse_256', 'sqr'), ('@sqr_mont_sparse_256', 'sqr'), ('@fromx_mont_256', 'from'), ('@from_mont_256', 'from'),
                     ('@cneg_mod_256', 'cneg')):
        S[name] = wrap256(S[name], op)
    for n in ('@vec_is_zero', '@vec_is_zero_16x'):
        S[n] = wrap_vec_cmp(S[n], False)
    for n in ('@vec_is_equal', '@vec_is_equal_16x'):
        S[n] = wrap_vec_cmp(S[n], True)
    S['@ct_inverse_mod_256'] = st_inverse_alg(S['@ct_inverse_mod_256'])
    for n in ('@redcx_mont_256', '@redc_mont_256'):
        S[n] = st_redc_alg(S[n])

TRUSTED = [
 'POINTonE1/E2 dadd_affine: the group law when the second operand is in affine form (BLST contract), an unrelated element otherwise',
 'POINTonE1/E2 dadd, double, cneg, mult_glv/gls, from_Jacobian, is_equal, in_G1/in_G2, blst_p1s_mult_pippenger: group law on (discrete log, torsion part) as exact polynomials over Z_r',
 'map_to_g1: torsion-free point with one fresh discrete-log generator per distinct (u0,u1); never the identity',
 'miller_loop_n + mul_fp12 + final_exp: exponent = sum of products of the discrete logs of the prime-order parts (cofactor-torsion parts, of order coprime to r, pair to one -- which is why a missing subgroup check makes s+T a second valid signature); result is one iff the exponent vanishes (non-degeneracy)',
 'E1/E2_read_bytes of an encoding produced on the path with its sort bit (0x20 of byte 0) flipped: the negated point (no point has y = 0)',
 'E1/E2_read_bytes, E1/E2_write_bytes: the canonical-encoding contract that check C05 establishes for the real functions (accepted strings are exactly the canonical encodings; decode(encode(P)) = P; infinity = C0 00..00)',
 'Fr arithmetic (add/sub/neg/Montgomery product by exact scaling with the constant R^-1 mod r) on polynomial scalars; modular inverse only of concrete values',
 'each distinct monomial is one integer unknown for the solver (relations between monomials other than zero-divisor and unit facts are forgotten: unsat is sound, sat is confirmed by native replay)',
]
