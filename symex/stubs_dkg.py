# Engine-side definitions of the DKG message builders used by harness/crypto/zz_verif_dkg.go.
# Natively the builders run a real honest dealer; here they return symbolic bytes constrained by
# the axioms an honest dealing satisfies in the uninterpreted model of cstubs_dkg.py.
import z3
from .core import *
from . import cstubs_dkg as D

R255 = 0x73eda753299d7d483339d80809a1d80553bda402fffe5bfeffffffff00000001
P = 'github.com/onflow/crypto.'

def _dealing(ex, key):
    tab = ex.pstate.setdefault('dealings', {})
    d = tab.get(key)
    if d is not None:
        return d
    ident, n, t, dealer = key
    chunks = []
    vecbytes = []
    for k in range(t + 1):
        bs = [z3.BitVec('deal%d_vec%d_%d!%d' % (ident, k, j, len(tab)), 8) for j in range(96)]
        vecbytes += bs
        B = z3.Concat(*bs)
        chunks.append(B)
        ex.add(D.VEC_OK(B) == 0)                    # an honest vector parses
    pts = [D.PT_DEC(B) for B in chunks]
    # a_0 != 0 (randFrStar): the group public key A_0 is not the point at infinity (Z != 0)
    ex.add(z3.Not(D.ISINF(pts[0])))
    shares = {}
    imgs = {}
    for i in range(n):
        acc = z3.BitVecVal(D.INFTY2, D.E2W)
        for k in range(t, -1, -1):
            acc = D.IMG(acc, pts[k], z3.BitVecVal(i + 1, 8))
        imgs[i] = acc
        sb = [z3.BitVec('deal%d_share%d_%d!%d' % (ident, i, j, len(tab)), 8) for j in range(32)]
        x = z3.Concat(*sb)
        ex.add(z3.And(x != 0, z3.ULT(x, z3.BitVecVal(R255, 256))))    # shares are in F_r^*
        ex.add(D.CHK(x, acc))                                        # honest share matches its public image
        # the image is not the identity and the group key neither (negligible-probability events excluded)
        shares[i] = (sb, x)
    d = {'vec': vecbytes, 'chunks': chunks, 'pts': pts, 'shares': shares, 'imgs': imgs, 'key': key}
    # degenerate images: the vector with its last coefficient replaced by the point at infinity (what
    # is left in memory when the last chunk fails to decode). For t = 1 this is the constant polynomial
    # A_0: the scalar a_0 matches every such image, the real shares match none.
    a0b = [z3.BitVec('deal%d_a0_%d!%d' % (ident, j, len(tab)), 8) for j in range(32)]
    a0 = z3.Concat(*a0b)
    ex.add(z3.And(a0 != 0, z3.ULT(a0, z3.BitVecVal(R255, 256))))
    d['a0'] = a0b
    d['a0v'] = a0
    d['dimgs'] = {}
    for i in range(n):
        acc = z3.BitVecVal(D.INFTY2, D.E2W)
        for k in range(t, -1, -1):
            acc = D.IMG(acc, pts[k] if k < t else z3.BitVecVal(D.INFTY2, D.E2W), z3.BitVecVal(i + 1, 8))
        d['dimgs'][i] = acc
        if t == 1:
            ex.add(D.CHK(a0, acc))
    same = [d] + [d2 for k2, d2 in tab.items() if k2[1:] == key[1:]]
    for d1 in same:
        for d2 in same:
            if d1 is not d and d2 is not d:
                continue
            for i in range(n):
                x = d1['shares'][i][1]
                ex.add(z3.Not(D.CHK(x, d2['dimgs'][i])))
                ex.add(z3.Not(D.CHK(d1['a0v'], d2['imgs'][i])))
                if d1 is not d2:
                    ex.add(z3.Not(D.CHK(x, d2['imgs'][i])))
                    ex.add(z3.Not(D.CHK(d1['a0v'], d2['dimgs'][i])))
    tab[key] = d
    return d

def dealing_vec(ex, a, ins):
    ident, n, t, dealer = [signed(x, 64) for x in a]
    d = _dealing(ex, (ident, n, t, dealer))
    return ex.make_bytes([1] + d['vec'], 'dealing_vec')          # tag feldmanVSSVerifVec = 1

def dealing_share(ex, a, ins):
    ident, n, t, dealer, i = [signed(x, 64) for x in a]
    d = _dealing(ex, (ident, n, t, dealer))
    return ex.make_bytes([0] + d['shares'][i][0], 'dealing_share')  # tag feldmanVSSShare = 0

def dealing_a0(ex, a, ins):
    ident, n, t, dealer = [signed(x, 64) for x in a]
    d = _dealing(ex, (ident, n, t, dealer))
    return ex.make_bytes([0] + d['a0'], 'dealing_a0')

def bad_chunk(ex, a, ins):
    kind = signed(a[0], 64)
    k = ex.pstate.setdefault('badchunks', 0)
    ex.pstate['badchunks'] = k + 1
    bs = [z3.BitVec('badchunk%d_%d' % (k, j), 8) for j in range(96)]
    B = z3.Concat(*bs)
    ex.add(D.VEC_OK(B) == (2 if kind == 0 else 5))      # BAD_ENCODING / POINT_NOT_IN_GROUP
    return ex.make_bytes(bs, 'badchunk')

def rand_fr(star):
    def f(ex, a, ins):
        from .cstubs import wr
        k = ex.pstate.setdefault('randfr_n', 0)
        ex.pstate['randfr_n'] = k + 1
        v = z3.BitVec('randfr_%d' % k, 256)
        ex.add(z3.ULT(v, z3.BitVecVal(R255, 256)))
        if star:
            ex.add(v != 0)
        wr(ex, a[0], 4, v)
        return None if star else simp(v == 0)
    return f

def install(ex):
    # the dealer's random polynomial: coefficients are arbitrary field elements (a_0, a_t non-zero);
    # the derivation from the seed through SHA3 and ChaCha20 is outside these DKG checks
    ex.stubs[P + 'randFr'] = rand_fr(False)
    ex.stubs[P + 'randFrStar'] = rand_fr(True)
    ex.stubs[P + 'dkgDealingVec'] = dealing_vec
    ex.stubs[P + 'dkgDealingShare'] = dealing_share
    ex.stubs[P + 'dkgBadChunk'] = bad_chunk
    ex.stubs[P + 'dkgDealingA0'] = dealing_a0

ASSUMPTIONS = ['randFr / randFrStar return arbitrary elements of F_r / F_r^* (the PRG derivation is not part of the DKG checks)',
               'honest dealing (builder dkgDealing*): the verification vector parses, every share is in [1, r-1] and satisfies g2^x = its public image (the algebraic fact behind this is Fr_polynomial_image vs E2_polynomial_images, checked for the C code under C06)',
               'shares of one dealing do not satisfy the check against another, independently generated, dealing (probability-2^-255 coincidences excluded)',
               'corrupted chunks (dkgBadChunk) are rejected by G2_vector_read_bytes with the stated error code; natively they are a garbage header / a point outside G2']
