// gossa: dump go/ssa of onflow/crypto (and selected dependencies) as JSON for the
// Python symbolic executor. Harness files are injected through packages.Config.Overlay
// so nothing is written under /repo.
package main

import (
	"encoding/json"
	"flag"
	"fmt"
	"go/constant"
	"go/token"
	"go/types"
	"os"
	"sort"
	"strings"

	"golang.org/x/tools/go/packages"
	"golang.org/x/tools/go/ssa"
	"golang.org/x/tools/go/ssa/ssautil"
)

type J = map[string]any

var (
	sizes   = types.SizesFor("gc", "amd64")
	typeTab = map[string]J{}
	typeIDs = map[types.Type]string{}
	fset    *token.FileSet
	bodyPfx []string
)

func tid(t types.Type) string {
	if t == nil {
		return ""
	}
	if id, ok := typeIDs[t]; ok {
		return id
	}
	if a, ok := t.(*types.Alias); ok {
		id := tid(types.Unalias(a))
		typeIDs[t] = id
		return id
	}
	id := types.TypeString(t, nil)
	// pointers / slices of alias types are named after the aliased type (method sets are keyed by it)
	if p, ok := t.(*types.Pointer); ok {
		if _, isAlias := p.Elem().(*types.Alias); isAlias {
			id = "*" + tid(p.Elem())
		}
	} else if s, ok := t.(*types.Slice); ok {
		if _, isAlias := s.Elem().(*types.Alias); isAlias {
			id = "[]" + tid(s.Elem())
		}
	}
	typeIDs[t] = id
	if _, ok := typeTab[id]; ok {
		return id
	}
	d := J{}
	typeTab[id] = d
	func() {
		defer func() {
			if r := recover(); r != nil {
				d["nosize"] = true
			}
		}()
		d["size"] = sizes.Sizeof(t)
		d["align"] = sizes.Alignof(t)
	}()
	if n, ok := t.(*types.Named); ok {
		d["named"] = n.Obj().Name()
		if n.Obj().Pkg() != nil {
			d["pkg"] = n.Obj().Pkg().Path()
		}
	}
	switch u := t.Underlying().(type) {
	case *types.Basic:
		d["kind"] = "basic"
		d["basic"] = u.Name()
		if u.Kind() == types.UnsafePointer {
			d["basic"] = "unsafe.Pointer"
		}
		info := u.Info()
		d["signed"] = info&types.IsInteger != 0 && info&types.IsUnsigned == 0
		d["isint"] = info&types.IsInteger != 0
		d["isstr"] = info&types.IsString != 0
		d["isbool"] = info&types.IsBoolean != 0
		d["isfloat"] = info&types.IsFloat != 0
	case *types.Pointer:
		d["kind"] = "pointer"
		d["elem"] = tid(u.Elem())
	case *types.Slice:
		d["kind"] = "slice"
		d["elem"] = tid(u.Elem())
	case *types.Array:
		d["kind"] = "array"
		d["elem"] = tid(u.Elem())
		d["len"] = u.Len()
	case *types.Struct:
		d["kind"] = "struct"
		var fl []*types.Var
		for i := 0; i < u.NumFields(); i++ {
			fl = append(fl, u.Field(i))
		}
		var offs []int64
		func() {
			defer func() { recover() }()
			offs = sizes.Offsetsof(fl)
		}()
		fs := []J{}
		for i, f := range fl {
			fj := J{"name": f.Name(), "type": tid(f.Type()), "embedded": f.Embedded()}
			if offs != nil {
				fj["off"] = offs[i]
			}
			fs = append(fs, fj)
		}
		d["fields"] = fs
	case *types.Interface:
		d["kind"] = "interface"
		ms := []string{}
		for i := 0; i < u.NumMethods(); i++ {
			ms = append(ms, u.Method(i).Name())
		}
		d["methods"] = ms
	case *types.Map:
		d["kind"] = "map"
		d["key"] = tid(u.Key())
		d["elem"] = tid(u.Elem())
	case *types.Chan:
		d["kind"] = "chan"
		d["elem"] = tid(u.Elem())
	case *types.Signature:
		d["kind"] = "func"
		ps := []string{}
		for i := 0; i < u.Params().Len(); i++ {
			ps = append(ps, tid(u.Params().At(i).Type()))
		}
		rs := []string{}
		for i := 0; i < u.Results().Len(); i++ {
			rs = append(rs, tid(u.Results().At(i).Type()))
		}
		d["params"] = ps
		d["results"] = rs
		d["variadic"] = u.Variadic()
	case *types.Tuple:
		d["kind"] = "tuple"
		es := []string{}
		for i := 0; i < u.Len(); i++ {
			es = append(es, tid(u.At(i).Type()))
		}
		d["elems"] = es
	case *types.TypeParam:
		d["kind"] = "typeparam"
	default:
		d["kind"] = fmt.Sprintf("unknown:%T", u)
	}
	return id
}

func fnPkgPath(fn *ssa.Function) string {
	if fn.Pkg != nil {
		return fn.Pkg.Pkg.Path()
	}
	if fn.Synthetic != "" && fn.Signature.Recv() != nil {
		t := fn.Signature.Recv().Type()
		if p, ok := t.(*types.Pointer); ok {
			t = p.Elem()
		}
		if n, ok := t.(*types.Named); ok && n.Obj().Pkg() != nil {
			return n.Obj().Pkg().Path()
		}
	}
	if o := fn.Origin(); o != nil && o != fn {
		return fnPkgPath(o)
	}
	if fn.Object() != nil && fn.Object().Pkg() != nil {
		return fn.Object().Pkg().Path()
	}
	if p := fn.Parent(); p != nil {
		return fnPkgPath(p)
	}
	// wrappers / bound / thunk: look at receiver
	if fn.Signature.Recv() != nil {
		t := fn.Signature.Recv().Type()
		if p, ok := t.(*types.Pointer); ok {
			t = p.Elem()
		}
		if n, ok := t.(*types.Named); ok && n.Obj().Pkg() != nil {
			return n.Obj().Pkg().Path()
		}
	}
	if len(fn.Params) > 0 {
		t := fn.Params[0].Type()
		if p, ok := t.(*types.Pointer); ok {
			t = p.Elem()
		}
		if n, ok := t.(*types.Named); ok && n.Obj().Pkg() != nil {
			return n.Obj().Pkg().Path()
		}
	}
	return ""
}

func wantBody(fn *ssa.Function) bool {
	if len(fn.Blocks) == 0 {
		return false
	}
	p := fnPkgPath(fn)
	for _, pre := range bodyPfx {
		if p == pre || strings.HasPrefix(p, pre+"/") {
			return true
		}
	}
	return false
}

type dumper struct {
	funcs   map[string]J
	queue   []*ssa.Function
	seen    map[*ssa.Function]bool
	globals map[string]J
}

func (d *dumper) add(fn *ssa.Function) {
	if fn == nil || d.seen[fn] {
		return
	}
	d.seen[fn] = true
	d.queue = append(d.queue, fn)
}

func constVal(c *ssa.Const) J {
	r := J{"k": "const", "t": tid(c.Type())}
	if c.Value == nil {
		r["v"] = nil
		r["zero"] = true
		return r
	}
	switch c.Value.Kind() {
	case constant.Bool:
		r["v"] = constant.BoolVal(c.Value)
	case constant.String:
		bs := []byte(constant.StringVal(c.Value))
		is := make([]int, len(bs))
		for i, b := range bs {
			is[i] = int(b)
		}
		r["s"] = is
	case constant.Int:
		r["i"] = c.Value.ExactString()
	case constant.Float:
		// integer-typed constants may have Float kind
		if i := constant.ToInt(c.Value); i.Kind() == constant.Int {
			r["i"] = i.ExactString()
		} else {
			r["f"] = c.Value.ExactString()
		}
	default:
		r["unk"] = c.Value.String()
	}
	return r
}

func (d *dumper) ref(names map[ssa.Value]string, v ssa.Value) any {
	if v == nil {
		return nil
	}
	switch x := v.(type) {
	case *ssa.Const:
		return constVal(x)
	case *ssa.Global:
		name := x.String()
		if _, ok := d.globals[name]; !ok {
			d.globals[name] = J{"type": tid(x.Type()), "elem": tid(x.Type().(*types.Pointer).Elem())}
		}
		return J{"k": "global", "n": name}
	case *ssa.Function:
		d.add(x)
		return J{"k": "func", "n": x.String(), "t": tid(x.Type())}
	case *ssa.Builtin:
		return J{"k": "builtin", "n": x.Name()}
	}
	if n, ok := names[v]; ok {
		return J{"k": "l", "n": n}
	}
	return J{"k": "unknown", "s": v.String()}
}

func pos(p token.Pos) string {
	if !p.IsValid() {
		return ""
	}
	ps := fset.Position(p)
	return fmt.Sprintf("%s:%d", ps.Filename, ps.Line)
}

func (d *dumper) dumpFunc(fn *ssa.Function) J {
	out := J{"name": fn.String(), "pkg": fnPkgPath(fn), "pos": pos(fn.Pos()), "synthetic": fn.Synthetic, "sig": tid(fn.Signature)}
	if !wantBody(fn) {
		out["external"] = true
		ps := []J{}
		for _, p := range fn.Params {
			ps = append(ps, J{"n": p.Name(), "t": tid(p.Type())})
		}
		out["params"] = ps
		return out
	}
	names := map[ssa.Value]string{}
	ps := []J{}
	for i, p := range fn.Params {
		n := fmt.Sprintf("p%d", i)
		names[p] = n
		ps = append(ps, J{"n": n, "src": p.Name(), "t": tid(p.Type())})
	}
	out["params"] = ps
	fvs := []J{}
	for i, p := range fn.FreeVars {
		n := fmt.Sprintf("f%d", i)
		names[p] = n
		fvs = append(fvs, J{"n": n, "src": p.Name(), "t": tid(p.Type())})
	}
	out["freevars"] = fvs
	cnt := 0
	for _, b := range fn.Blocks {
		for _, ins := range b.Instrs {
			if v, ok := ins.(ssa.Value); ok {
				names[v] = fmt.Sprintf("v%d", cnt)
				cnt++
			}
		}
	}
	if fn.Recover != nil {
		out["recover"] = fn.Recover.Index
	}
	blocks := []J{}
	for _, b := range fn.Blocks {
		bj := J{"i": b.Index}
		preds := []int{}
		for _, p := range b.Preds {
			preds = append(preds, p.Index)
		}
		succs := []int{}
		for _, s := range b.Succs {
			succs = append(succs, s.Index)
		}
		bj["preds"] = preds
		bj["succs"] = succs
		ins := []J{}
		for _, in := range b.Instrs {
			if _, ok := in.(*ssa.DebugRef); ok {
				continue
			}
			ins = append(ins, d.dumpInstr(names, in))
		}
		bj["ins"] = ins
		blocks = append(blocks, bj)
	}
	out["blocks"] = blocks
	for _, af := range fn.AnonFuncs {
		d.add(af)
	}
	return out
}

func (d *dumper) callCommon(names map[ssa.Value]string, c *ssa.CallCommon, j J) {
	args := []any{}
	for _, a := range c.Args {
		args = append(args, d.ref(names, a))
	}
	j["args"] = args
	if c.IsInvoke() {
		j["invoke"] = c.Method.Name()
		j["recv"] = d.ref(names, c.Value)
		j["recvt"] = tid(c.Value.Type())
	} else {
		j["fn"] = d.ref(names, c.Value)
	}
	j["sig"] = tid(c.Signature())
}

func (d *dumper) dumpInstr(names map[ssa.Value]string, in ssa.Instruction) J {
	j := J{}
	if v, ok := in.(ssa.Value); ok {
		j["n"] = names[v]
		j["t"] = tid(v.Type())
	}
	if p := pos(in.Pos()); p != "" {
		j["pos"] = p
	}
	r := func(v ssa.Value) any { return d.ref(names, v) }
	switch x := in.(type) {
	case *ssa.Alloc:
		j["op"] = "Alloc"
		j["heap"] = x.Heap
		j["elem"] = tid(x.Type().(*types.Pointer).Elem())
		j["comment"] = x.Comment
	case *ssa.BinOp:
		j["op"] = "BinOp"
		j["o"] = x.Op.String()
		j["x"] = r(x.X)
		j["y"] = r(x.Y)
		j["xt"] = tid(x.X.Type())
		j["yt"] = tid(x.Y.Type())
	case *ssa.Call:
		j["op"] = "Call"
		d.callCommon(names, &x.Call, j)
	case *ssa.ChangeInterface:
		j["op"] = "ChangeInterface"
		j["x"] = r(x.X)
	case *ssa.ChangeType:
		j["op"] = "ChangeType"
		j["x"] = r(x.X)
	case *ssa.Convert:
		j["op"] = "Convert"
		j["x"] = r(x.X)
		j["xt"] = tid(x.X.Type())
	case *ssa.MultiConvert:
		j["op"] = "MultiConvert"
		j["x"] = r(x.X)
		j["xt"] = tid(x.X.Type())
	case *ssa.Defer:
		j["op"] = "Defer"
		d.callCommon(names, &x.Call, j)
	case *ssa.Go:
		j["op"] = "Go"
		d.callCommon(names, &x.Call, j)
	case *ssa.Extract:
		j["op"] = "Extract"
		j["x"] = r(x.Tuple)
		j["i"] = x.Index
	case *ssa.Field:
		j["op"] = "Field"
		j["x"] = r(x.X)
		j["i"] = x.Field
		j["xt"] = tid(x.X.Type())
	case *ssa.FieldAddr:
		j["op"] = "FieldAddr"
		j["x"] = r(x.X)
		j["i"] = x.Field
		j["st"] = tid(x.X.Type().Underlying().(*types.Pointer).Elem())
	case *ssa.If:
		j["op"] = "If"
		j["c"] = r(x.Cond)
	case *ssa.Index:
		j["op"] = "Index"
		j["x"] = r(x.X)
		j["i"] = r(x.Index)
		j["xt"] = tid(x.X.Type())
		j["it"] = tid(x.Index.Type())
	case *ssa.IndexAddr:
		j["op"] = "IndexAddr"
		j["x"] = r(x.X)
		j["i"] = r(x.Index)
		j["xt"] = tid(x.X.Type())
		j["it"] = tid(x.Index.Type())
	case *ssa.Jump:
		j["op"] = "Jump"
	case *ssa.Lookup:
		j["op"] = "Lookup"
		j["x"] = r(x.X)
		j["i"] = r(x.Index)
		j["xt"] = tid(x.X.Type())
		j["commaok"] = x.CommaOk
	case *ssa.MakeChan:
		j["op"] = "MakeChan"
	case *ssa.MakeClosure:
		j["op"] = "MakeClosure"
		j["fn"] = r(x.Fn)
		bs := []any{}
		for _, b := range x.Bindings {
			bs = append(bs, r(b))
		}
		j["bindings"] = bs
	case *ssa.MakeInterface:
		j["op"] = "MakeInterface"
		j["x"] = r(x.X)
		j["xt"] = tid(x.X.Type())
	case *ssa.MakeMap:
		j["op"] = "MakeMap"
	case *ssa.MakeSlice:
		j["op"] = "MakeSlice"
		j["len"] = r(x.Len)
		j["cap"] = r(x.Cap)
	case *ssa.MapUpdate:
		j["op"] = "MapUpdate"
		j["m"] = r(x.Map)
		j["k"] = r(x.Key)
		j["v"] = r(x.Value)
		j["mt"] = tid(x.Map.Type())
	case *ssa.Next:
		j["op"] = "Next"
		j["x"] = r(x.Iter)
		j["isstr"] = x.IsString
	case *ssa.Panic:
		j["op"] = "Panic"
		j["x"] = r(x.X)
	case *ssa.Phi:
		j["op"] = "Phi"
		es := []any{}
		for _, e := range x.Edges {
			es = append(es, r(e))
		}
		j["edges"] = es
	case *ssa.Range:
		j["op"] = "Range"
		j["x"] = r(x.X)
		j["xt"] = tid(x.X.Type())
	case *ssa.Return:
		j["op"] = "Return"
		rs := []any{}
		for _, e := range x.Results {
			rs = append(rs, r(e))
		}
		j["rs"] = rs
	case *ssa.RunDefers:
		j["op"] = "RunDefers"
	case *ssa.Select:
		j["op"] = "Select"
	case *ssa.Send:
		j["op"] = "Send"
	case *ssa.Slice:
		j["op"] = "Slice"
		j["x"] = r(x.X)
		j["xt"] = tid(x.X.Type())
		j["lo"] = r(x.Low)
		j["hi"] = r(x.High)
		j["max"] = r(x.Max)
	case *ssa.SliceToArrayPointer:
		j["op"] = "SliceToArrayPointer"
		j["x"] = r(x.X)
	case *ssa.Store:
		j["op"] = "Store"
		j["a"] = r(x.Addr)
		j["v"] = r(x.Val)
		j["vt"] = tid(x.Val.Type())
	case *ssa.TypeAssert:
		j["op"] = "TypeAssert"
		j["x"] = r(x.X)
		j["at"] = tid(x.AssertedType)
		j["commaok"] = x.CommaOk
	case *ssa.UnOp:
		j["op"] = "UnOp"
		j["o"] = x.Op.String()
		j["x"] = r(x.X)
		j["xt"] = tid(x.X.Type())
		j["commaok"] = x.CommaOk
	default:
		j["op"] = fmt.Sprintf("Unknown:%T", in)
	}
	return j
}

type multi []string

func (m *multi) String() string     { return strings.Join(*m, ",") }
func (m *multi) Set(s string) error { *m = append(*m, s); return nil }

func main() {
	var overlays multi
	var tags string
	var outPath, dir string
	var bodies string
	var cgo bool
	flag.Var(&overlays, "overlay", "virtual=real harness file (repeatable)")
	flag.StringVar(&tags, "tags", "", "build tags")
	flag.StringVar(&outPath, "o", "ssa.json", "output")
	flag.StringVar(&dir, "dir", "/repo", "module dir")
	flag.StringVar(&bodies, "bodies", "github.com/onflow/crypto,golang.org/x/crypto/chacha20,golang.org/x/crypto/internal/alias,encoding/binary,internal/byteorder,math/bits,bytes,strings,slices,errors,internal/bytealg,internal/stringslite,golang.org/x/crypto/cryptobyte", "package path prefixes whose bodies are dumped")
	flag.BoolVar(&cgo, "cgo", true, "CGO_ENABLED")
	flag.Parse()
	bodyPfx = strings.Split(bodies, ",")
	pats := flag.Args()
	if len(pats) == 0 {
		pats = []string{"github.com/onflow/crypto", "github.com/onflow/crypto/hash", "github.com/onflow/crypto/random"}
	}
	ov := map[string][]byte{}
	for _, o := range overlays {
		kv := strings.SplitN(o, "=", 2)
		b, err := os.ReadFile(kv[1])
		if err != nil {
			panic(err)
		}
		ov[kv[0]] = b
	}
	env := os.Environ()
	if cgo {
		env = append(env, "CGO_ENABLED=1")
	} else {
		env = append(env, "CGO_ENABLED=0")
	}
	cfg := &packages.Config{
		Mode:    packages.LoadAllSyntax,
		Dir:     dir,
		Overlay: ov,
		Env:     env,
	}
	if tags != "" {
		cfg.BuildFlags = []string{"-tags=" + tags}
	}
	pkgs, err := packages.Load(cfg, pats...)
	if err != nil {
		fmt.Fprintln(os.Stderr, "load:", err)
		os.Exit(2)
	}
	nerr := 0
	packages.Visit(pkgs, nil, func(p *packages.Package) {
		for _, e := range p.Errors {
			fmt.Fprintln(os.Stderr, "pkg error:", p.PkgPath, e)
			nerr++
		}
	})
	if nerr > 0 {
		os.Exit(2)
	}
	prog, spkgs := ssautil.AllPackages(pkgs, ssa.InstantiateGenerics)
	prog.Build()
	fset = prog.Fset
	d := &dumper{funcs: map[string]J{}, seen: map[*ssa.Function]bool{}, globals: map[string]J{}}
	methods := map[string]map[string]string{}
	addMethods := func(t types.Type) {
		ms := prog.MethodSets.MethodSet(t)
		if ms.Len() == 0 {
			return
		}
		m := map[string]string{}
		for i := 0; i < ms.Len(); i++ {
			sel := ms.At(i)
			fn := prog.MethodValue(sel)
			if fn == nil {
				continue
			}
			m[sel.Obj().Name()] = fn.String()
			d.add(fn)
		}
		methods[tid(t)] = m
	}
	inBody := func(path string) bool {
		for _, pre := range bodyPfx {
			if path == pre || strings.HasPrefix(path, pre+"/") {
				return true
			}
		}
		return false
	}
	inits := []string{}
	for _, sp := range prog.AllPackages() {
		if sp == nil || !inBody(sp.Pkg.Path()) {
			continue
		}
		mnames := make([]string, 0, len(sp.Members))
		for n := range sp.Members {
			mnames = append(mnames, n)
		}
		sort.Strings(mnames)
		for _, n := range mnames {
			switch m := sp.Members[n].(type) {
			case *ssa.Function:
				if m.TypeParams() != nil && len(m.TypeArgs()) == 0 {
					continue // generic, uninstantiated
				}
				d.add(m)
			case *ssa.Type:
				t := m.Type()
				if nt, ok := t.(*types.Named); ok && nt.TypeParams() != nil {
					continue
				}
				if _, ok := t.Underlying().(*types.Interface); ok {
					tid(t)
					continue
				}
				addMethods(t)
				addMethods(types.NewPointer(t))
			case *ssa.Global:
				d.globals[m.String()] = J{"type": tid(m.Type()), "elem": tid(m.Type().(*types.Pointer).Elem())}
			}
		}
	}
	_ = spkgs
	for _, t := range prog.RuntimeTypes() {
		if _, ok := methods[tid(t)]; !ok {
			addMethods(t)
		}
	}
	for len(d.queue) > 0 {
		fn := d.queue[0]
		d.queue = d.queue[1:]
		d.funcs[fn.String()] = d.dumpFunc(fn)
	}
	for _, sp := range prog.AllPackages() {
		if inBody(sp.Pkg.Path()) {
			if f := sp.Func("init"); f != nil {
				inits = append(inits, f.String())
			}
		}
	}
	out := J{"types": typeTab, "funcs": d.funcs, "globals": d.globals, "methods": methods, "inits": inits}
	f, err := os.Create(outPath)
	if err != nil {
		panic(err)
	}
	enc := json.NewEncoder(f)
	if err := enc.Encode(out); err != nil {
		panic(err)
	}
	f.Close()
	fmt.Fprintf(os.Stderr, "gossa: %d funcs, %d types, %d globals -> %s\n", len(d.funcs), len(typeTab), len(d.globals), outPath)
}
