# Logical threads over one symbolic heap (C18). Each logical thread runs the interpreter in its own Python
# thread; exactly one runs at a time. Control changes hands only at *visible points*: operations on a mutex
# and accesses to tracked shared locations made without holding the tracked mutex. At a visible point the
# running thread announces the operation it is about to perform and the scheduler picks, among the threads
# whose announced operation is enabled, the one that proceeds -- a fork of the symbolic path when more than
# one is enabled (the choice is a value on the tape, so that the native replay can follow the same schedule).
import threading
import z3
from .core import *

class ThreadAbort(BaseException):
    pass

class Sched:
    def __init__(self, ex, closures):
        self.ex = ex
        self.n = len(closures)
        self.closures = closures
        self.sems = [threading.Semaphore(0) for _ in closures]
        self.main_sem = threading.Semaphore(0)
        self.done = [False] * self.n
        self.pending = [('start', None)] * self.n
        self.exc = None
        self.aborted = False
        self.cur = -1
        self.clock = 0
        self.decisions = 0
        self.locks = {}          # mutex key -> 0 free, -1 writer, k readers
        self.holds = [dict() for _ in closures]    # per thread: mutex key -> count
        self.unguarded = 0
        self.pointee_yielded = set()

    # ---- driver (called from the main interpreter thread)
    def run(self):
        ths = [threading.Thread(target=self._body, args=(i,), daemon=True) for i in range(self.n)]
        for t in ths:
            t.start()
        try:
            nxt = self._choose()
            self.cur = nxt
            self.sems[nxt].release()
        except BaseException as e:
            self.exc = e
            self.main_sem.release()
        self.main_sem.acquire()
        if self.exc is not None:
            self.aborted = True
            for s in self.sems:
                s.release()
            for t in ths:
                t.join(5)
            self.ex.sched = None
            raise self.exc
        for t in ths:
            t.join(5)

    def _body(self, i):
        self.sems[i].acquire()
        if self.aborted:
            return
        try:
            self.ex.call_value(self.closures[i], [])
            self.done[i] = True
            self.pending[i] = None
            if all(self.done):
                self.main_sem.release()
                return
            nxt = self._choose()
            self.cur = nxt
            self.sems[nxt].release()
        except ThreadAbort:
            pass
        except BaseException as e:
            self.exc = e
            self.main_sem.release()

    # ---- visible points (called from the running logical thread)
    def _enabled(self, j):
        op = self.pending[j]
        if op is None:
            return False
        kind, key = op
        st = self.locks.get(key, 0)
        if kind == 'Lock':
            return st == 0
        if kind == 'RLock':
            return st != -1
        return True

    def _choose(self):
        enabled = [j for j in range(self.n) if not self.done[j] and self._enabled(j)]
        self.clock += 1
        if not enabled:
            raise GoPanic('deadlock', 'all logical threads are blocked: %s' % (self.pending,))
        if len(enabled) == 1:
            return enabled[0]
        self.decisions += 1
        v = self.ex.nondet('sched', 8)
        k = self.ex.choose([v == z3.BitVecVal(j, 8) for j in enabled])
        return enabled[k]

    def yield_point(self, op):
        i = self.cur
        self.pending[i] = op
        nxt = self._choose()
        if nxt != i:
            self.cur = nxt
            self.sems[nxt].release()
            self.sems[i].acquire()
            if self.aborted:
                raise ThreadAbort()
        self.pending[i] = ('running', None)

    def mutex_op(self, m, key):
        i = self.cur
        if m in ('Lock', 'RLock'):
            self.yield_point((m, key))
        st = self.locks.get(key, 0)
        h = self.holds[i]
        if m == 'Lock':
            self.locks[key] = -1
            h[key] = 'w'
        elif m == 'RLock':
            self.locks[key] = st + 1
            h[key] = 'r'
        elif m == 'Unlock':
            if st != -1 or h.get(key) != 'w':
                raise GoPanic('explicit', 'sync: Unlock of unlocked RWMutex')
            self.locks[key] = 0
            h.pop(key, None)
        elif m == 'RUnlock':
            if st <= 0 or h.get(key) != 'r':
                raise GoPanic('explicit', 'sync: RUnlock of unlocked RWMutex')
            self.locks[key] = st - 1
            h.pop(key, None)

    def access(self, what, write):
        """an access to a tracked shared location by the running thread"""
        i = self.cur
        if i < 0:
            return
        mode = None
        for v in self.holds[i].values():
            mode = 'w' if v == 'w' or mode == 'w' else 'r'
        if mode == 'w' or (mode == 'r' and not write):
            return
        self.unguarded += 1
        self.ex.events.append(('unguarded', '%s of %s without the %s lock' % ('write' if write else 'read', what, 'write' if mode == 'r' else '')))
        if sum(1 for d in self.done if not d) > 1:
            self.yield_point(('access', None))

    def access_pointee(self, obj, write):
        """a store into a buffer that is reachable from the tracked shared state (a slice or pointer stored there):
        it must be made under the write lock; counted, and a scheduling point once per thread and buffer"""
        i = self.cur
        if i < 0 or not write:
            return
        if any(v == 'w' for v in self.holds[i].values()):
            return
        self.unguarded += 1
        self.ex.events.append(('unguarded', 'write into %s (reachable from the shared state) without the write lock' % obj.label))
        key = (i, obj.id)
        if key not in self.pointee_yielded and sum(1 for d in self.done if not d) > 1:
            self.pointee_yielded.add(key)
            self.yield_point(('access', None))

def track_pointee(ex, v, owner):
    from .core import Ptr, Slice
    if isinstance(v, Slice):
        v = v.ptr
    if isinstance(v, Ptr) and v.obj is not None and v.obj is not owner and not getattr(v.obj, 'ro', False):
        ex.pstate.setdefault('tracked_objs', set()).add(v.obj.id)

def verif_threads(ex, a, ins):
    clos = [c for c in a if c is not None]
    if len(clos) == 1 and isinstance(clos[0], Slice):
        sl = clos[0]
        # variadic ...func(): load the closures from the slice
        tid = ins and None
        raise Unsupported('variadic verifThreads')
    s = Sched(ex, clos)
    ex.sched = s
    try:
        s.run()
    finally:
        ex.sched = None
    ex.events.append(('sched', '%d scheduling decisions, %d unguarded accesses' % (s.decisions, s.unguarded)))
    ex.pstate['sched_clock'] = s.clock
    ex.pstate['unguarded'] = ex.pstate.get('unguarded', 0) + s.unguarded
    return None

def verif_now(ex, a, ins):
    s = getattr(ex, 'sched', None)
    if s is None:
        return ex.pstate.get('sched_clock', 0)
    return s.clock

def verif_track(ex, a, ins):
    """verifTrackShared(obj, lo, hi): loads/stores of bytes [lo, hi) of *obj and operations on the maps stored there are shared accesses"""
    p = a[0]
    if isinstance(p, Iface):
        p = p.val
    lo, hi = signed(a[1], 64), signed(a[2], 64)
    ex.pstate.setdefault('tracked', []).append((p.obj.id, p.off + lo, p.off + hi))
    # maps stored in the tracked range
    for off in range(p.off + lo, p.off + hi, 8):
        try:
            v = ex.mem.read(p.obj, off, 8)
        except Exception:
            continue
        if isinstance(v, MapObj):
            ex.pstate.setdefault('tracked_maps', set()).add(id(v))
    # buffers reachable from the tracked range (slices and pointers stored there, whatever the cell size)
    for start, (n, v) in list(p.obj.cells.items()):
        if start < p.off + hi and start + n > p.off + lo:
            track_pointee(ex, v, p.obj)
    return None

def install(ex):
    for p in ('github.com/onflow/crypto', ):
        ex.stubs[p + '.verifThreads2'] = verif_threads
        ex.stubs[p + '.verifThreads3'] = verif_threads
        ex.stubs[p + '.verifNow'] = verif_now
        ex.stubs[p + '.verifTrackShared'] = verif_track
        ex.stubs[p + '.verifUnguarded'] = lambda ex, a, i: ex.pstate.get('unguarded', 0)
