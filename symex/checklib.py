# checklib: common check flow — regenerate encodings, run symbolic cases, replay
# counterexamples natively, match known findings, write evidence, exit status.
import os, sys, json, time, re, fnmatch, hashlib, collections
from . import driver, core

_PROG = {}
MAX_REPLAYS = 16
MAX_PER_MSG = 2
N_WITNESS = 3

def get_prog(path):
    p = _PROG.get(path)
    if p is None:
        p = _PROG[path] = core.Program(path)
    return p

class Case:
    def __init__(self, name, pkg, fn, args=(), opts=None, expect_reach=True, desc=''):
        self.name, self.pkg, self.fn, self.args = name, pkg, fn, list(args)
        self.opts = opts or {}
        self.expect_reach = expect_reach
        self.desc = desc
    def full(self):
        base = 'github.com/onflow/crypto'
        return (base if self.pkg == 'crypto' else base + '/' + self.pkg) + '.' + self.fn

def _run_case(job):
    ssa, case, timeout_ms, seed, setup_name = job
    prog = get_prog(ssa)
    ex = core.Executor(prog, timeout_ms=timeout_ms, seed=seed)
    setup_name = case.opts.get('setup', setup_name)
    if setup_name:
        mod, fn = setup_name.rsplit(':', 1)
        import importlib
        getattr(importlib.import_module(mod), fn)(ex, case)
    for k, v in case.opts.items():
        if k in ('map_order_all', 'max_paths', 'big_len_set'):
            setattr(ex, k, v)
    if os.environ.get('VERIF_NO_SOLVER_DIFF') != '1':
        ex.diff_budget = 3
        ex.diff_dir = os.path.join(driver.CACHE, 'smt', re.sub(r'[^A-Za-z0-9_.-]', '_', case.name))
        os.makedirs(ex.diff_dir, exist_ok=True)
        for old in os.listdir(ex.diff_dir):
            os.remove(os.path.join(ex.diff_dir, old))
    t0 = time.time()
    recs = ex.explore(case.full(), args_fn=(lambda e: list(case.args)), run_init=case.opts.get('run_init', case.pkg == 'crypto'))
    st = collections.Counter(r['status'] for r in recs)
    out = {'case': case.name, 'fn': case.fn, 'pkg': case.pkg, 'args': [a if isinstance(a, int) else str(a) for a in case.args],
           'paths': len(recs), 'status': dict(st), 'stats': ex.stats.asdict(),
           'violations': [], 'unsupported': [], 'inconclusive': [], 'reached': 0, 'asserts': 0,
           'called': sorted(ex.called), 'sample_path': None, 'diff_files': list(ex.diff_files), 'symbolic_only': bool(case.opts.get('symbolic_only'))}
    labels = collections.Counter()
    for r in recs:
        ev = r.get('events') or []
        na = sum(1 for e in ev if e[0] == 'assert')
        out['asserts'] += na
        if na or any(e[0] == 'reach' for e in ev):
            out['reached'] += 1
        for e in ev:
            labels[e[0] + ':' + e[1]] += 1
        if r['status'] == 'assert_fail':
            out['violations'].append({'kind': 'assert', 'msg': r['info']['msg'], 'tape': r['info']['model'], 'trace_len': len(r['trace'])})
        elif r['status'] == 'panic':
            out['violations'].append({'kind': 'panic', 'msg': '%s %s @%s' % (r['info']['kind'], r['info']['msg'], r['info']['pos']), 'tape': r.get('model'), 'trace_len': len(r['trace'])})
        elif r['status'] == 'unsupported':
            out['unsupported'].append(r['info'])
        if r.get('inconclusive'):
            out['inconclusive'] += r['inconclusive']
        if r['status'] == 'ok' and r.get('model') is not None and 'witness' not in out:
            out['witness'] = {'tape': r['model'], 'labels': [e[1] for e in ev if e[0] == 'reach']}
        if out['sample_path'] is None and r['status'] == 'ok' and ev:
            out['sample_path'] = {'decisions': len(r['trace']), 'events': [list(e) for e in ev[:6]]}
    out['labels'] = dict(labels)
    out['solver_s'] = ex.stats.solver_s
    return out

def _run_other_solver(job):
    path, solver = job
    import subprocess
    cmd = ['/usr/bin/z3', '-T:20', path] if solver == 'z3-4.8.12' else ['cvc5', '--tlimit=20000', path]
    try:
        r = subprocess.run(cmd, stdout=subprocess.PIPE, stderr=subprocess.STDOUT, text=True, timeout=40)
        out = r.stdout
    except subprocess.TimeoutExpired:
        return (path, solver, 'timeout')
    lines = [l.strip() for l in out.strip().split('\n') if l.strip()]
    if any(l.startswith('(error') for l in lines):
        return (path, solver, 'error')       # (an old z3 may drop an assertion it cannot parse and still answer)
    verdicts = [l for l in lines if l in ('sat', 'unsat', 'unknown', 'timeout')]
    return (path, solver, verdicts[-1] if verdicts else 'error')

def solver_diff(results, seed, limit):
    """re-run a seed-chosen sample of the discharged assertion queries (z3py 5.1.0 said unsat) through
    /usr/bin/z3 4.8.12 and cvc5 1.0.3; 'sat' from another solver is a disagreement (reported as inconclusive);
    parse errors / unsupported constructs / timeouts are counted, not treated as agreement"""
    import random as _random
    files = []
    for r in results:
        files += r.get('diff_files', []) if 'error' not in r else []
    _random.Random(seed + 99).shuffle(files)
    files = files[:limit]
    out = {'queries_written': len(files), 'z3-4.8.12': {'unsat': 0, 'sat': 0, 'unknown': 0, 'timeout': 0, 'error': 0},
           'cvc5-1.0.3': {'unsat': 0, 'sat': 0, 'unknown': 0, 'timeout': 0, 'error': 0}, 'disagree': []}
    if not files:
        return out
    jobs = [(f, s) for f in files for s in ('z3-4.8.12', 'cvc5-1.0.3')]
    res = driver.run_cases_simple(_run_other_solver, jobs)
    for (path, solver, verdict) in res:
        out[solver][verdict if verdict in out[solver] else 'error'] += 1
        if verdict == 'sat':
            out['disagree'].append('%s answers sat on %s (z3 5.1.0: unsat)' % (solver, path))
    return out

def load_known():
    p = os.path.join(driver.VERIF, 'known_findings.json')
    if not os.path.exists(p):
        return []
    return json.load(open(p))

def match_known(known, prop, case, msg):
    for k in known:
        if k.get('status') != 'known' or k['property'] != prop:
            continue
        if fnmatch.fnmatch(case, k.get('case', '*')) and k.get('msg', '') in msg:
            return k
    return None

def run_check(prop, cases, tier, seed, level='model_checking', functions=(), bounds=None, assumptions=(),
              trusted=(), explanation='', setup=None, timeout_ms=None, procs=None, extra_cov=None, tags=driver.HARNESS_TAG,
              pre_results=None, replay_flags='', post_results=None, evidence_name=None, ssa_name='ssa', cgo=True, replay_env=''):
    """returns exit code. `cases` is a list of Case."""
    t0 = time.time()
    timeout_ms = timeout_ms or (60000 if tier == 'quick' else 600000)
    ssa = driver.dump_ssa(tags=tags, name=ssa_name, cgo=cgo)
    jobs = [(ssa, c, timeout_ms, seed, setup) for c in cases]
    results = driver.run_cases(_run_case, jobs, procs=procs)
    if pre_results:
        results = list(pre_results) + results
    post_broken = post_results([r for r in results if 'error' not in r]) if post_results else []
    diff = solver_diff(results, seed, 60 if tier == 'quick' else 400)
    if os.environ.get('VERIF_TIMES'):
        for r in sorted(results, key=lambda r: -r.get('wall_s', 0))[:10]:
            print('  time %.1fs %s paths=%s' % (r.get('wall_s', 0), r.get('case'), r.get('paths')))
    known = load_known()
    viol_lines, known_lines, inconc = [], [], []
    n_viol = 0
    replays = 0
    unreplayed = 0
    per_msg = {}
    per_msg_fail = {}
    broken = list(post_broken)
    seen_known = set()
    for res in results:
        if 'error' in res:
            broken.append('%s: engine error: %s' % (res.get('case'), res['error'][-400:]))
            continue
        for u in res['unsupported']:
            inconc.append('%s: unsupported: %s' % (res['case'], u))
        for u in res['inconclusive']:
            inconc.append('%s: %s' % (res['case'], u))
        # group violations by message; replay the first of each group
        groups = collections.OrderedDict()
        for v in res['violations']:
            groups.setdefault((v['kind'], v['msg']), []).append(v)
        for (kind, msg), vs in groups.items():
            v = vs[0]
            case = next(c for c in cases if c.name == res['case']) if res.get('fn') else None
            if v['tape'] is None:
                inconc.append('%s: violation without model: %s' % (res['case'], msg))
                continue
            if res.get('symbolic_only'):
                inconc.append('%s: assertion fails under a hypothetical that cannot be replayed natively: %s' % (res['case'], msg))
                continue
            k0 = match_known(known, prop, res['case'], msg)
            msgkey = (kind, msg)
            # (a model that does not replay does not use up the budget of its message class: other cases with the
            # same message may still replay; failed attempts have their own, larger cap)
            if per_msg.get(msgkey, 0) >= MAX_PER_MSG or per_msg_fail.get(msgkey, 0) >= 6 * MAX_PER_MSG or replays >= MAX_REPLAYS:
                unreplayed += 1
                continue
            d = driver.write_replay(prop, re.sub(r'[^A-Za-z0-9_.-]', '_', res['case'] + '_' + hashlib.md5(msg.encode()).hexdigest()[:6]),
                                    res['pkg'], _replay_fn(res), v['tape'], note='%s %s: %s' % (prop, res['case'], msg), go_flags=replay_flags, tags=tags, env=replay_env)
            rep, out = driver.run_replay(d)
            replays += 1
            open(os.path.join(d, 'replay.log'), 'w').write(out if isinstance(out, str) else str(out))
            if rep:
                per_msg[msgkey] = per_msg.get(msgkey, 0) + 1
            else:
                per_msg_fail[msgkey] = per_msg_fail.get(msgkey, 0) + 1
            if rep:
                k = match_known(known, prop, res['case'], msg)
                if k:
                    if k['id'] not in seen_known:
                        known_lines.append('KNOWN-FINDING: property=%s %s (%s; case %s)' % (prop, k['what'], k['id'], res['case']))
                        seen_known.add(k['id'])
                else:
                    n_viol += 1
                    viol_lines.append('VIOLATION property=%s replay=%s' % (prop, d))
                    viol_lines.append('  case=%s kind=%s msg=%s' % (res['case'], kind, msg))
            else:
                inconc.append('%s: ENGINE-MISMATCH: model does not replay natively: %s (see %s)' % (res['case'], msg, d))
        if res.get('fn') and res['reached'] == 0 and not res['violations'] and next(c for c in cases if c.name == res['case']).expect_reach:
            broken.append('%s: vacuous: no path reached an assertion/reach label (%s)' % (res['case'], res['status']))
    # translator validation: replay reachability witnesses (models of passing paths) natively; the
    # native run must reach the same label without any assertion failure or panic
    import random as _random
    rng = _random.Random(seed)
    wit = [r for r in results if 'error' not in r and r.get('witness') and not r.get('symbolic_only')]
    rng.shuffle(wit)
    wit_ok = 0
    for res in wit[:N_WITNESS]:
        d = driver.write_replay(prop, 'witness_' + re.sub(r'[^A-Za-z0-9_.-]', '_', res['case']), res['pkg'], _replay_fn(res), res['witness']['tape'],
                                note='%s reachability witness of case %s' % (prop, res['case']), go_flags=replay_flags, tags=tags, env=replay_env)
        rep, out = driver.run_replay(d)
        replays += 1
        open(os.path.join(d, 'replay.log'), 'w').write(out if isinstance(out, str) else str(out))
        if rep is None or rep or not all(('REACHED ' + l) in out for l in res['witness']['labels']):
            inconc.append('%s: ENGINE-MISMATCH: passing path does not replay natively (see %s)' % (res['case'], d))
        else:
            wit_ok += 1
    for (kind, msg), cnt in per_msg.items():
        print('  violation class: %dx %s: %s' % (cnt, kind, msg))
    for l in known_lines:
        print(l)
    for d in diff['disagree']:
        inconc.append('solver cross-check: %s' % d)
    for l in inconc:
        print('INCONCLUSIVE property=%s %s' % (prop, l))
    for l in broken:
        print('BROKEN property=%s %s' % (prop, l))
    for l in viol_lines:
        print(l)
    # evidence
    ok_results = [r for r in results if 'error' not in r]
    paths = sum(r['paths'] for r in ok_results)
    q = collections.Counter()
    for r in ok_results:
        for k in ('queries', 'sat', 'unsat', 'unknown', 'assert_queries', 'instrs'):
            q[k] += r['stats'][k]
    called = set()
    for r in ok_results:
        called.update(x for x in r.get('called', []) if 'onflow/crypto' in x or 'chacha20' in x)
    samples = []
    for r in ok_results[:40]:
        if r.get('sample_path'):
            samples.append({'case': r['case'], 'harness': r['fn'], 'args': r['args'], 'paths': r['paths'], 'status': r['status'], 'one_path': r['sample_path']})
        elif r.get('sample'):
            samples.append(r['sample'])
    samples = samples[:8] or [{'case': r['case'], 'status': r['status']} for r in ok_results[:3]]
    nontrivial = sum(r['reached'] for r in ok_results)
    cov = {
        'evaluations': max(paths, 1),
        'distinct_nontrivial': nontrivial,
        'rule': 'one evaluation = one explored symbolic path (distinct decision trace) of a harness case; non-trivial = the path reached at least one assertion or reach label with a feasible path condition (each such path is a distinct class of concrete inputs, all decided by the solver at once)',
        'samples': samples,
        'states': max(paths, 1),
        'transitions': max(q['instrs'], 1),
        'traces_validated_against_impl': replays,
        'exhaustive': not inconc and not broken,
        'cases': len(results),
        'paths': paths,
        'assertions_checked': sum(r['asserts'] for r in ok_results),
        'solver_queries': dict(q),
        'solver_s': round(sum(r.get('solver_s', 0) for r in ok_results), 2),
        'functions_encoded': sorted(set(functions) | called)[:400],
        'bounds': bounds or {},
        'trusted_base': list(trusted),
        'explanation': explanation,
        'inconclusive': inconc[:50],
        'known_findings_matched': sorted(seen_known),
        'violations_not_replayed_beyond_cap': unreplayed,
        'witness_paths_replayed_natively_ok': wit_ok,
        'solver_cross_check': diff,
        'encoding_source': os.path.basename(ssa) + ' (regenerated from /repo working tree on this run)',
    }
    if extra_cov:
        cov.update(extra_cov)
    ev = {
        'property_id': prop, 'tier': tier, 'seed': seed, 'level': level, 'coverage': cov,
        'assumptions': list(assumptions), 'wall_s': round(time.time() - t0, 2), 'violations': n_viol,
    }
    # runs against a scratch worktree (VERIF_REPO set, used for seeded changes) do not touch the evidence of /repo
    evdir = os.path.join(driver.VERIF, 'evidence') if driver.REPO == '/repo' else os.path.join(driver.CACHE, 'evidence_scratch')
    os.makedirs(evdir, exist_ok=True)
    json.dump(ev, open(os.path.join(evdir, (evidence_name or prop) + '.json'), 'w'), indent=1, default=str)
    print('%s: %d cases, %d paths, %d assertion queries, %d violations, %d known, %d inconclusive, %.1fs' % (
        prop, len(results), paths, q['assert_queries'], n_viol, len(seen_known), len(inconc), time.time() - t0))
    if n_viol or broken:
        return 1
    return 0

def _replay_fn(res):
    a = res.get('args') or []
    if a:
        def g(x):
            if isinstance(x, bool):
                return 'true' if x else 'false'
            if isinstance(x, int):
                return str(core.signed(x, 64))
            return str(x)
        return 'func() { %s(%s) }' % (res['fn'], ', '.join(g(x) for x in a))
    return res['fn']

def merge_evidence(prop, parts, tier, seed, t0):
    """one evidence file for a check made of several run_check sub-runs (different build tags / replay flags)"""
    evdir = os.path.join(driver.VERIF, 'evidence') if driver.REPO == '/repo' else os.path.join(driver.CACHE, 'evidence_scratch')
    evs = [json.load(open(os.path.join(evdir, p + '.json'))) for p in parts]
    cov = {'evaluations': 0, 'distinct_nontrivial': 0, 'states': 0, 'transitions': 0, 'traces_validated_against_impl': 0, 'cases': 0, 'paths': 0, 'assertions_checked': 0, 'solver_s': 0.0}
    for e in evs:
        for k in cov:
            cov[k] += e['coverage'].get(k, 0)
    cov['rule'] = evs[0]['coverage']['rule']
    cov['samples'] = sum((e['coverage']['samples'][:3] for e in evs), [])
    cov['exhaustive'] = all(e['coverage']['exhaustive'] for e in evs)
    cov['parts'] = {p: {k: e['coverage'][k] for k in ('cases', 'paths', 'assertions_checked', 'solver_queries', 'bounds', 'explanation', 'encoding_source', 'inconclusive') if k in e['coverage']} for p, e in zip(parts, evs)}
    cov['functions_encoded'] = sorted(set(sum((e['coverage']['functions_encoded'] for e in evs), [])))[:400]
    cov['trusted_base'] = sorted(set(sum((e['coverage']['trusted_base'] for e in evs), [])))
    cov['bounds'] = {p: e['coverage']['bounds'] for p, e in zip(parts, evs)}
    cov['inconclusive'] = sum((e['coverage']['inconclusive'] for e in evs), [])
    ev = {'property_id': prop, 'tier': tier, 'seed': seed, 'level': 'model_checking', 'coverage': cov,
          'assumptions': sorted(set(sum((e['assumptions'] for e in evs), []))), 'wall_s': round(time.time() - t0, 2), 'violations': sum(e['violations'] for e in evs)}
    json.dump(ev, open(os.path.join(evdir, prop + '.json'), 'w'), indent=1, default=str)
    for p in parts:
        os.remove(os.path.join(evdir, p + '.json'))

