# driver: build the front-ends, regenerate the encodings from /repo's current tree,
# run harness cases in parallel, replay counterexamples natively, write evidence.
import os, sys, json, hashlib, subprocess, time, glob, shutil, multiprocessing, traceback

VERIF = os.path.dirname(os.path.dirname(os.path.abspath(__file__)))
REPO = os.environ.get('VERIF_REPO', '/repo')
CACHE = os.path.join(VERIF, '.cache')
GO_ENV = dict(os.environ)
GO_ENV.update({
    'PATH': '/opt/veriftools/go1.26.8/bin:' + os.environ.get('PATH', ''),
    'GOFLAGS': '-mod=mod', 'GOPROXY': 'off', 'GOSUMDB': 'off', 'GOTOOLCHAIN': 'local',
    'GOCACHE': os.environ.get('GOCACHE', os.path.join(os.path.expanduser('~'), '.cache', 'go-build')),
})
PKGDIR = {'crypto': '', 'hash': 'hash', 'random': 'random'}
HARNESS_TAG = 'verif_harness'

def sh(cmd, **kw):
    return subprocess.run(cmd, shell=isinstance(cmd, str), stdout=subprocess.PIPE, stderr=subprocess.STDOUT, text=True, **kw)

def build_gossa():
    os.makedirs(CACHE, exist_ok=True)
    out = os.path.join(CACHE, 'gossa')
    src = os.path.join(VERIF, 'symex', 'gossa')
    tmp = out + '.tmp%d' % os.getpid()
    r = sh(['go', 'build', '-o', tmp, '.'], cwd=src, env=GO_ENV)
    if r.returncode != 0:
        raise RuntimeError('gossa build failed:\n' + r.stdout)
    os.replace(tmp, out)
    return out

def repo_fingerprint(extra=()):
    h = hashlib.sha256()
    files = []
    for pat in ('*.go', '*.c', '*.h', 'hash/*.go', 'hash/*.s', 'random/*.go', 'go.mod'):
        files += glob.glob(os.path.join(REPO, pat))
    files += list(extra)
    for f in sorted(files):
        h.update(f.encode())
        with open(f, 'rb') as fh:
            h.update(fh.read())
    return h.hexdigest()[:16]

EXTRA_OVERLAYS = {}      # virtual path under REPO -> generator(source text) -> text ; set by checks that instrument a source file

def harness_overlays():
    """(virtual path -> real path) for prims and harness files of all packages"""
    gen = os.path.join(CACHE, 'gen')
    os.makedirs(gen, exist_ok=True)
    tmpl = open(os.path.join(VERIF, 'harness', 'prims', 'prims.go.tmpl')).read()
    ov = {}
    for pkg, sub in PKGDIR.items():
        d = os.path.join(gen, pkg)
        os.makedirs(d, exist_ok=True)
        p = os.path.join(d, 'zz_verif_prims.go')
        body = tmpl.replace('package PKG', 'package ' + pkg)
        if not os.path.exists(p) or open(p).read() != body:
            open(p, 'w').write(body)
        ov[os.path.join(REPO, sub, 'zz_verif_prims.go')] = p
        for f in sorted(glob.glob(os.path.join(VERIF, 'harness', pkg, '*.go'))):
            ov[os.path.join(REPO, sub, os.path.basename(f))] = f
    # instrumented copies of repository files, regenerated from the working tree
    for rel, genf in EXTRA_OVERLAYS.items():
        src = open(os.path.join(REPO, rel)).read()
        body = genf(src)
        d = os.path.join(gen, 'instrumented')
        os.makedirs(d, exist_ok=True)
        p = os.path.join(d, rel.replace('/', '__'))
        if not os.path.exists(p) or open(p).read() != body:
            open(p, 'w').write(body)
        ov[os.path.join(REPO, rel)] = p
    return ov

def _older_than(path, seconds):
    try:
        return time.time() - os.path.getmtime(path) > seconds
    except OSError:
        return False

def dump_ssa(tags=HARNESS_TAG, cgo=True, name='ssa', extra_args=()):
    """regenerate the SSA dump from /repo's current working tree (cached by content hash)"""
    ov = harness_overlays()
    fp = repo_fingerprint(list(ov.values()) + [os.path.join(VERIF, 'symex', 'gossa', 'main.go')])
    out = os.path.join(CACHE, '%s_%s_%s_%d.json' % (name, fp, tags.replace(',', '+'), int(cgo)))
    if os.path.exists(out):
        return out
    gossa = os.path.join(CACHE, 'gossa')
    src = os.path.join(VERIF, 'symex', 'gossa', 'main.go')
    if not os.path.exists(gossa) or os.path.getmtime(gossa) < os.path.getmtime(src):
        build_gossa()
    # stale dumps of other source states are removed once they are old enough not to belong to a check that is
    # running concurrently against another tree
    for old in glob.glob(os.path.join(CACHE, name + '_*.json')):
        if ('_%s_%d.json' % (tags.replace(',', '+'), int(cgo))) in old and _older_than(old, 7200):
            os.remove(old)
    cmd = [gossa, '-o', out + '.tmp', '-dir', REPO, '-tags', tags, '-cgo=%s' % ('true' if cgo else 'false')]
    for v, r in ov.items():
        cmd += ['-overlay', '%s=%s' % (v, r)]
    cmd += list(extra_args)
    r = sh(cmd, env=GO_ENV)
    if r.returncode != 0:
        raise RuntimeError('gossa failed:\n' + r.stdout)
    os.rename(out + '.tmp', out)
    return out

# ---------------------------------------------------------------------------
# native replay

REPLAY_TMPL = '''//go:build verif_harness

package %(pkg)s

import "testing"

func TestVerifReplay(t *testing.T) {
	tape := []uint64{%(tape)s}
	failures, panicked, assumeFailed := VerifReplay(tape, %(fn)s)
	if assumeFailed && len(failures) == 0 {
		t.Log("VERIF-REPLAY: assumption failed natively (model does not replay)")
		return
	}
	// (an assumption that fails AFTER an assertion already failed only means that the tape, which ends at the
	// solver's violation, ran out: the recorded failures stand)
	if panicked != nil {
		t.Logf("VERIF-REPLAY: PANIC %%v", panicked)
		t.Fail()
	}
	for _, f := range failures {
		t.Logf("VERIF-REPLAY: ASSERT-FAILED %%s", f)
		t.Fail()
	}
	for _, l := range VerifReached {
		t.Logf("VERIF-REPLAY: REACHED %%s", l)
	}
	// harnesses with logical threads: the closures also run as free goroutines (meaningful with -race)
	if VerifUsedThreads {
		VerifFreeRun = true
		for k := 0; k < 40; k++ {
			f2, p2, _ := VerifReplay(tape, %(fn)s)
			if p2 != nil {
				t.Logf("VERIF-REPLAY: PANIC (free run) %%v", p2)
				t.Fail()
			}
			for _, f := range f2 {
				t.Logf("VERIF-REPLAY: ASSERT-FAILED (free run) %%s", f)
				t.Fail()
			}
		}
	}
}
'''

def write_replay(prop, case, pkg, fn, tape, note='', go_flags='', tags=HARNESS_TAG, env=''):
    """write a self-contained replay directory; returns its path"""
    d = os.path.join(VERIF, 'replays', prop, case)
    os.makedirs(d, exist_ok=True)
    sub = PKGDIR[pkg]
    test = os.path.join(d, 'zz_verif_replay_test.go')
    open(test, 'w').write(REPLAY_TMPL % {'pkg': pkg, 'fn': fn, 'tape': ', '.join(str(x) for x in tape)})
    ov = harness_overlays()
    # copy overlay sources so that the replay dir is self-contained
    rep = {}
    for v, r in ov.items():
        dst = os.path.join(d, os.path.basename(os.path.dirname(v)) + '__' + os.path.basename(v))
        shutil.copyfile(r, dst)
        rep[v] = dst
    rep[os.path.join(REPO, sub, 'zz_verif_replay_test.go')] = test
    json.dump({'Replace': rep}, open(os.path.join(d, 'overlay.json'), 'w'), indent=1)
    run = os.path.join(d, 'run.sh')
    open(run, 'w').write('''#!/bin/sh
# replay of a solver counterexample against the natively built package
# %s
export PATH=/opt/veriftools/go1.26.8/bin:$PATH GOFLAGS=-mod=mod GOPROXY=off GOSUMDB=off GOTOOLCHAIN=local
%s
cd %s && exec go test %s -tags %s -vet=off -count=1 -v -overlay %s -run 'TestVerifReplay$' .
''' % (note.replace('\n', ' '), env, os.path.join(REPO, sub), go_flags, tags, os.path.join(d, 'overlay.json')))
    os.chmod(run, 0o755)
    return d

def run_replay(d, timeout=900):
    """returns (reproduced: bool, output)"""
    try:
        r = sh(['sh', os.path.join(d, 'run.sh')], timeout=timeout)
    except subprocess.TimeoutExpired:
        return None, 'timeout'
    out = r.stdout
    rep = ('VERIF-REPLAY: ASSERT-FAILED' in out) or ('VERIF-REPLAY: PANIC' in out) or ('WARNING: DATA RACE' in out)
    return rep, out

# ---------------------------------------------------------------------------
# parallel case runner

def _worker(job):
    fn, arg = job
    t0 = time.time()
    try:
        r = fn(arg)
    except Exception as e:
        r = {'case': str(arg), 'error': traceback.format_exc()}
    r['wall_s'] = time.time() - t0
    return r

def run_cases_simple(fn, jobs, procs=16):
    if not jobs:
        return []
    with multiprocessing.Pool(min(procs, len(jobs))) as pool:
        return pool.map(fn, jobs, chunksize=1)

def run_cases(fn, cases, procs=None):
    procs = procs or min(16, os.cpu_count() or 1, max(1, len(cases)))
    if procs == 1 or len(cases) <= 1:
        return [_worker((fn, c)) for c in cases]
    with multiprocessing.Pool(procs) as pool:
        return pool.map(_worker, [(fn, c) for c in cases], chunksize=1)

# ---------------------------------------------------------------------------
# C front-end

_LL = {}

def get_llvm(defs=('-D__ADX__',), opt='-O0'):
    """compile /repo's C units to LLVM IR (cached by content hash) and parse them"""
    from . import llvm, cstubs
    key = (tuple(defs), opt)
    if key in _LL:
        return _LL[key]
    fp = repo_fingerprint()
    tag = hashlib.md5((' '.join(defs) + opt).encode()).hexdigest()[:6]
    d = os.path.join(CACHE, 'll_%s_%s' % (fp, tag))
    paths = [os.path.join(d, u + '.ll') for u in llvm.UNITS]
    if not all(os.path.exists(p) for p in paths):
        for old in glob.glob(os.path.join(CACHE, 'll_*_%s' % tag)):
            if _older_than(old, 7200):
                shutil.rmtree(old, ignore_errors=True)
        tmp = d + '.tmp%d' % os.getpid()
        llvm.compile_ir(REPO, tmp, defs, opt)
        try:
            os.rename(tmp, d)
        except OSError:
            shutil.rmtree(tmp, ignore_errors=True)
    mod = llvm.parse_module(paths)
    L = llvm.LLVM(mod)
    cstubs.install(L)
    _LL[key] = L
    return L
