# case setup hooks that attach the C front-end and library models
from . import driver, stubs_hash, stubs_big, stubs_chacha

def _defs(case):
    d = (case.opts or {}).get('c_defs') if case is not None else None
    return tuple(d) if d else ('-D__ADX__',)

def with_c(ex, case):
    from . import stubs_ecdsa
    ex.llvm = driver.get_llvm(defs=_defs(case))
    stubs_hash.install(ex)
    stubs_big.install(ex)
    stubs_chacha.install(ex)
    stubs_ecdsa.install(ex)

_DKG = {}

def with_dkg(ex, case):
    """C front-end with the uninterpreted L2 model of the DKG curve operations"""
    from . import llvm, cstubs, cstubs_dkg, stubs_dkg
    base = driver.get_llvm()
    L = _DKG.get('L')
    if L is None:
        L = llvm.LLVM(base.mod)
        L.stubs = dict(base.stubs)
        cstubs_dkg.install(L)
        _DKG['L'] = L
    ex.llvm = L
    stubs_hash.install(ex)
    stubs_big.install(ex)
    stubs_chacha.install(ex)
    stubs_dkg.install(ex)

_GALG = {}

def with_galg(ex, case):
    """C front-end with the algebraic group model at the BLST boundary"""
    from . import llvm, galg, stubs_galg
    base = driver.get_llvm(defs=_defs(case))
    L = _GALG.get(_defs(case))
    if L is None:
        L = llvm.LLVM(base.mod)
        L.stubs = dict(base.stubs)
        galg.install(L)
        _GALG[_defs(case)] = L
    ex.llvm = L
    ex.galg_scalars = True
    ex.galg_coord_axioms = bool(case is not None and case.opts.get('coord_axioms'))
    ex.galg_scalar_eq_axioms = bool(case is not None and case.opts.get('scalar_eq_axioms'))
    ex.galg_formal_coeffs = bool(case is not None and case.opts.get('formal_coeffs'))
    ex.galg_h2c_fork = bool(case is not None and case.opts.get('h2c_fork'))
    if galg.refine_model not in ex.model_refiners:
        ex.model_refiners.append(galg.refine_model)
        ex.model_refiners.append(galg.refine_products)
    stubs_hash.install(ex)
    stubs_big.install(ex)
    stubs_chacha.install(ex)
    stubs_galg.install(ex)

def with_galg_bytes(ex, case):
    """algebraic model with byte-exact scalars: byte strings mapped into F_r are exact linear forms in their bytes"""
    from . import stubs_galg, stubs_ecdsa
    with_galg(ex, case)
    ex.galg_byte_atoms = True
    stubs_ecdsa.install(ex)
    ex.stubs[stubs_galg.P + 'mapToFr'] = stubs_galg.map_to_fr_cut(int((case.opts or {}).get('mapToFr_limit', 3)), bool((case.opts or {}).get('force_first_zero')))

def with_galg_all(ex, case):
    """algebraic model plus the ECDSA / big.Int library models (API sweeps that touch every scheme)"""
    from . import stubs_ecdsa
    with_galg(ex, case)
    stubs_ecdsa.install(ex)
