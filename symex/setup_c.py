# case setup hooks that attach the C front-end
from . import driver, stubs_hash

def with_c(ex, case):
    ex.llvm = driver.get_llvm()
    stubs_hash.install(ex)
