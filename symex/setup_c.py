# case setup hooks that attach the C front-end and library models
from . import driver, stubs_hash, stubs_big, stubs_chacha

def with_c(ex, case):
    ex.llvm = driver.get_llvm()
    stubs_hash.install(ex)
    stubs_big.install(ex)
    stubs_chacha.install(ex)

_DKG = {}

def with_dkg(ex, case):
    """C front-end with the uninterpreted L2 model of the DKG curve operations"""
    from . import llvm, cstubs, cstubs_dkg, stubs_dkg
    base = driver.get_llvm()
    L = _DKG.get('L')
    if L is None:
        L = llvm.LLVM(base.mod)
        L.stubs = dict(base.stubs)
        cstubs_dkg.install(L)
        _DKG['L'] = L
    ex.llvm = L
    stubs_hash.install(ex)
    stubs_big.install(ex)
    stubs_chacha.install(ex)
    stubs_dkg.install(ex)
