# case setup hooks that attach the C front-end and library models
from . import driver, stubs_hash, stubs_big, stubs_chacha

def with_c(ex, case):
    ex.llvm = driver.get_llvm()
    stubs_hash.install(ex)
    stubs_big.install(ex)
    stubs_chacha.install(ex)
