# Contract stubs for the ChaCha20 block function of golang.org/x/crypto/chacha20.
# The buffering code of x/crypto (XORKeyStream, SetCounter, newUnauthenticatedCipher) is
# EXECUTED; only the block function is an uninterpreted function of (key, nonce, counter).
import z3
from .core import *

CIPHER = 'golang.org/x/crypto/chacha20.Cipher'
KS = z3.Function('chacha20_block', z3.BitVecSort(256), z3.BitVecSort(96), z3.BitVecSort(32), z3.BitVecSort(512))

def _fields(ex):
    t = ex.prog.T(CIPHER)
    return {f['name']: f for f in t['fields']}

def _kn(ex, p):
    f = _fields(ex)
    key = [ex._load(p.obj, p.off + f['key']['off'] + 4 * i, 'uint32') for i in range(8)]
    nonce = [ex._load(p.obj, p.off + f['nonce']['off'] + 4 * i, 'uint32') for i in range(3)]
    kb = z3.Concat(*[tobv(k, 32) for k in reversed(key)])
    nb = z3.Concat(*[tobv(k, 32) for k in reversed(nonce)])
    return kb, nb

def block_bytes(kb, nb, ctr):
    blk = KS(kb, nb, tobv(ctr, 32))
    return [simp(z3.Extract(8 * i + 7, 8 * i, blk)) for i in range(64)]

def xor_blocks_generic(ex, a, ins):
    """(*Cipher).xorKeyStreamBlocksGeneric(dst, src): contract = for each 64-byte block,
    dst = src xor BLOCK(key, nonce, counter); counter++ (wrapping uint32)."""
    s, dst, src = a
    if dst.len != src.len or dst.len % 64 != 0:
        raise GoPanic('explicit', 'chacha20: internal error: wrong dst and/or src length')
    f = _fields(ex)
    kb, nb = _kn(ex, s)
    coff = s.off + f['counter']['off']
    for b in range(dst.len // 64):
        ctr = ex._load(s.obj, coff, 'uint32')
        ks = block_bytes(kb, nb, ctr)
        sb = ex.read_bytes(Slice(src.ptr.add(64 * b), 64, 64))
        ex.write_bytes(Slice(dst.ptr.add(64 * b), 64, 64), [int_binop('^', x, k, 8, False) for x, k in zip(sb, ks)])
        ex._store(s.obj, coff, 'uint32', int_binop('+', ctr, 1, 32, False))
    return None

def ref_block(ex, a, ins):
    """harness primitive refChachaBlock(key []byte, nonce []byte, ctr uint32) [64]byte: the same
    uninterpreted block function, addressed by bytes (little-endian words as RFC 8439 prescribes)."""
    key, nonce, ctr = a
    kb = ex.read_bytes(key); nb = ex.read_bytes(nonce)
    if len(kb) != 32 or len(nb) != 12:
        raise Unsupported('refChachaBlock sizes')
    kbv = z3.Concat(*[tobv(x, 8) for x in reversed(kb)])
    nbv = z3.Concat(*[tobv(x, 8) for x in reversed(nb)])
    return Agg(block_bytes(kbv, nbv, ctr))

def inexact_overlap(ex, a, ins):
    x, y = a
    if x.len == 0 or y.len == 0:
        return False
    if x.ptr.obj is not y.ptr.obj:
        return False
    xo, yo = x.ptr.off, y.ptr.off
    if not (isinstance(xo, int) and isinstance(yo, int)):
        raise Unsupported('overlap test with symbolic offsets')
    if xo == yo:
        return False
    return xo <= yo + y.len - 1 and yo <= xo + x.len - 1

def install(ex):
    ex.stubs['(*golang.org/x/crypto/chacha20.Cipher).xorKeyStreamBlocksGeneric'] = xor_blocks_generic
    ex.stubs['github.com/onflow/crypto/random.refChachaBlock'] = ref_block
    ex.stubs['golang.org/x/crypto/internal/alias.InexactOverlap'] = inexact_overlap

TRUSTED = ['(*chacha20.Cipher).xorKeyStreamBlocksGeneric: per 64-byte block dst = src xor BLOCK(key,nonce,counter), counter++ ; BLOCK is one uninterpreted function shared with the reference (RFC 8439 block function itself is outside the claim)',
           'alias.InexactOverlap: decided on (object, offset) pairs']

def install_case(ex, case):
    install(ex)
