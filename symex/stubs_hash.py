# Contract stubs for hash primitives that are outside the claim: the Keccak-f[1600]
# permutation (uninterpreted 1600-bit function), and stream-hash objects of the standard
# library / x/crypto (cSHAKE128, SHA-256, SHA-384): absorb-stream objects whose output is
# an uninterpreted function of (algorithm parameters, absorbed byte sequence, position).
import z3
from .core import *

BV = z3.BitVecSort
KF = z3.Function('keccakF1600', BV(1600), BV(1600))
ABS = z3.Function('absorb', BV(256), BV(8), BV(256))
OUT = z3.Function('squeeze', BV(256), BV(32), BV(8))
ALG = z3.Function('alg_init', BV(32), BV(256), BV(256), BV(256))   # (algorithm id, chain(N), chain(S))
EMPTY = z3.BitVecVal(0x5eed, 256)
ALGID = {'cshake128': 1, 'sha256': 2, 'sha384': 3}
STREAM_T = 'verif.streamhash'

def chain(st, bs):
    for b in bs:
        st = ABS(st, tobv(b, 8))
    return st

def keccak_f(ex, a, ins):
    p = a[0]
    lanes = [ex._load(p.obj, p.off + 8 * i, 'uint64') for i in range(25)]
    x = z3.Concat(*[tobv(l, 64) for l in reversed(lanes)])
    y = KF(x)
    for i in range(25):
        ex._store(p.obj, p.off + 8 * i, 'uint64', simp(z3.Extract(64 * i + 63, 64 * i, y)))
    ex.events.append(('keccakF', ''))
    return None

def _content_eq(c1, c2):
    """condition under which two absorbed contents (algorithm, N, S, written bytes) are equal"""
    if c1[0] != c2[0] or any(len(x) != len(y) for x, y in zip(c1[1:], c2[1:])):
        return False
    r = True
    for x, y in zip(c1[1:], c2[1:]):
        for a, b in zip(x, y):
            r = band(r, int_binop('==', a, b, 8, False))
            if r is False:
                return False
    return r

def canonical_state(ex, s):
    """Soundness of treating hash outputs as formal indeterminates: on every path, syntactically different
    absorbed contents must be semantically different. If the content of this stream may equal (under the path
    condition) a content that was hashed before, the path forks: on the 'equal' branch the earlier state term
    is reused (so every derived term is syntactically identical), on the other branch the contents differ."""
    content = s.content()
    reg = ex.pstate.setdefault('hashed', [])
    for (c2, st2) in reg:
        ce = _content_eq(content, c2)
        if ce is False:
            continue
        if ce is True:
            return st2
        if ex.decide(ce):
            return st2
    reg.append((content, s.st))
    return s.st

def register_digest(ex, content, outs):
    """collision resistance of the modelled hash functions: equal digests (>= 16 bytes) imply equal inputs"""
    if len(outs) < 16:
        return
    reg = ex.pstate.setdefault('digests', [])
    if not isinstance(outs[0], int):
        ex.pstate.setdefault('digest_of', {})[outs[0].get_id()] = content
    d = z3.Concat(*[tobv(o, 8) for o in outs[:16]])
    for (c2, d2) in reg:
        ce = _content_eq(content, c2)
        if ce is True:
            continue
        ex.add(z3.Implies(d == d2, z3.BoolVal(False) if ce is False else ce))
    reg.append((content, d))

class Stream:
    def __init__(self, alg, init, size, block, N=(), S=()):
        self.alg, self.init, self.st = alg, init, init
        self.N, self.S, self.data = list(N), list(S), []
        self.size, self.block = size, block
        self.readpos = 0
        self.nwritten = 0
        self.shared = False       # set by write-effect harnesses (C19)
        self.pstate_cst = None
    def clone(self):
        s = Stream(self.alg, self.init, self.size, self.block, self.N, self.S)
        s.st, s.nwritten, s.readpos = self.st, self.nwritten, self.readpos
        s.data = list(self.data)
        return s
    def content(self):
        return (self.alg, self.N, self.S, self.data)

def _reg(ex, it):
    """remember every stream object of the path (write-effect harnesses mark the existing ones as shared)"""
    ex.pstate.setdefault('streams', []).append(it.val if isinstance(it, Iface) else it)
    return it

def _mut(ex, s, what):
    log = getattr(ex, 'effects', None)
    if log is not None and s.shared:
        log.append(('stream-mutation', '%s on a %s object that existed before the operation' % (what, s.alg)))

def s_write(ex, a, ins):
    s, p = a[0], a[1]
    _mut(ex, s, 'Write')
    if s.readpos:
        raise GoPanic('explicit', 'sha3: Write after Read')
    bs = ex.read_bytes(p)
    s.st = chain(s.st, bs)
    s.data = s.data + bs
    s.nwritten += len(bs)
    return (p.len, None)

def s_read(ex, a, ins):
    s, p = a[0], a[1]
    _mut(ex, s, 'Read')
    cst = canonical_state(ex, s) if s.readpos == 0 else s.pstate_cst
    s.pstate_cst = cst
    outs = [OUT(cst, z3.BitVecVal(s.readpos + i, 32)) for i in range(p.len)]
    if s.readpos == 0:
        register_digest(ex, s.content(), outs)
    ex.write_bytes(p, outs)
    s.readpos += p.len
    return (p.len, None)

def s_sum(ex, a, ins):
    s, b = a[0], a[1]
    cst = canonical_state(ex, s)
    dig = [OUT(cst, z3.BitVecVal(i, 32)) for i in range(s.size)]
    register_digest(ex, s.content(), dig)
    # append semantics: the digest is written in place when the argument has spare capacity
    if isinstance(b, Slice) and isinstance(b.len, int) and isinstance(b.cap, int) and b.ptr.obj is not None and b.cap - b.len >= s.size:
        ex.write_bytes(Slice(b.ptr.add(b.len), s.size, b.cap - b.len), dig)
        return Slice(b.ptr, b.len + s.size, b.cap)
    pre = ex.read_bytes(b) if isinstance(b, Slice) and b.len else []
    return ex.make_bytes(pre + dig, 'sum')

def s_reset(ex, a, ins):
    s = a[0]
    _mut(ex, s, 'Reset')
    s.st, s.readpos, s.nwritten, s.data = s.init, 0, 0, []
    return None

def s_clone(ex, a, ins):
    return _reg(ex, Iface(STREAM_T, a[0].clone()))

def new_cshake128(ex, a, ins):
    N, S = ex.read_bytes(a[0]), ex.read_bytes(a[1])
    init = ALG(z3.BitVecVal(ALGID['cshake128'], 32), chain(EMPTY, N), chain(EMPTY, S))
    return _reg(ex, Iface(STREAM_T, Stream('cshake128', init, 32, 168, N, S)))

def new_sha256(ex, a, ins):
    init = ALG(z3.BitVecVal(ALGID['sha256'], 32), EMPTY, EMPTY)
    return _reg(ex, Iface(STREAM_T, Stream('sha256', init, 32, 64)))

def new_sha384(ex, a, ins):
    init = ALG(z3.BitVecVal(ALGID['sha384'], 32), EMPTY, EMPTY)
    return _reg(ex, Iface(STREAM_T, Stream('sha384', init, 48, 128)))

def sum256(ex, a, ins):
    st = chain(ALG(z3.BitVecVal(ALGID['sha256'], 32), EMPTY, EMPTY), ex.read_bytes(a[0]))
    return Agg(OUT(st, z3.BitVecVal(i, 32)) for i in range(32))

def ref_cshake128(ex, a, ins):
    N, S, data, n = a
    st = chain(ALG(z3.BitVecVal(ALGID['cshake128'], 32), chain(EMPTY, ex.read_bytes(N)), chain(EMPTY, ex.read_bytes(S))), ex.read_bytes(data))
    return ex.make_bytes([OUT(st, z3.BitVecVal(i, 32)) for i in range(signed(n, 64))], 'refcshake')

def ref_sha2(alg, size):
    def f(ex, a, ins):
        st = chain(ALG(z3.BitVecVal(ALGID[alg], 32), EMPTY, EMPTY), ex.read_bytes(a[0]))
        return ex.make_bytes([OUT(st, z3.BitVecVal(i, 32)) for i in range(size)], 'ref' + alg)
    return f

def install(ex):
    S = ex.stubs
    S['github.com/onflow/crypto/hash.keccakF1600'] = keccak_f
    S['golang.org/x/crypto/sha3.NewCShake128'] = new_cshake128
    S['crypto/sha256.New'] = new_sha256
    S['crypto/sha512.New384'] = new_sha384
    S['crypto/sha256.Sum256'] = sum256
    for m, f in (('Write', s_write), ('Read', s_read), ('Sum', s_sum), ('Reset', s_reset), ('Clone', s_clone),
                 ('Size', lambda ex, a, i: a[0].size), ('BlockSize', lambda ex, a, i: a[0].block)):
        S[('method', STREAM_T, m)] = f
    for p in ('github.com/onflow/crypto/hash', 'github.com/onflow/crypto'):
        S[p + '.refCShake128'] = ref_cshake128
        S[p + '.refSHA2_256'] = ref_sha2('sha256', 32)
        S[p + '.refSHA2_384'] = ref_sha2('sha384', 48)

def install_case(ex, case):
    install(ex)

TRUSTED = ['hash.keccakF1600: one uninterpreted 1600-bit function shared by the code and the FIPS 202 reference sponge (the permutation itself is outside this check)',
           'x/crypto/sha3 cSHAKE128, crypto/sha256, crypto/sha512 objects: absorb-stream model (Write appends, Reset empties, Clone copies, Sum/Read = uninterpreted function of parameters and absorbed sequence)']
