# Go-side harness primitives of the algebraic model: symbolic field elements as generators.
import z3
from .core import *
from . import galg

P = 'github.com/onflow/crypto.'

def nondet_fr(star):
    def f(ex, a, ins):
        g = galg.new_gen(ex, 'fr')
        v = galg.mvar(ex, (g,))
        ex.nondets.append(('fr', v, 256))
        if star:
            ex.add(v != 0)
        galg.sc_write(ex, a[0], galg.Poly.gen(g))
        return None
    return f

def rand_fr(star):
    """randFr / randFrStar (dealer polynomial coefficients): arbitrary field elements; the derivation from
    the seed through SHA3 / ChaCha20 / map_bytes_to_Fr is outside the threshold-signature check"""
    def f(ex, a, ins):
        if getattr(ex, 'galg_formal_coeffs', False):
            # large signer sets: the dealer's random coefficients are formal indeterminates (generic values;
            # polynomial identities are then decided by coefficient comparison, stated in the bounds)
            g = galg.new_gen(ex, 'hpa')
            galg.sc_write(ex, a[0], galg.Poly.gen(g))
            return None if star else False
        g = galg.new_gen(ex, 'pa')
        v = galg.mvar(ex, (g,))
        if star:
            ex.add(v != 0)
        galg.sc_write(ex, a[0], galg.Poly.gen(g))
        return None if star else simp(v == 0)
    return f

def fr_is_os2ip_mod_r(ex, a, ins):
    """frIsOS2IPModR(x, b): the scalar x is OS2IP(b) mod r -- compared as exact linear forms over Z_r in the
    bytes of b (coefficients folded by the encoder), residual condition decided by the solver"""
    px = galg.sc_read(ex, a[0])
    pb = galg.os2ip_poly(ex, ex.read_bytes(a[1]))
    return galg.zero_cond(ex, px - pb)

def map_to_fr_cut(limit, force_first_zero=False):
    """mapToFr executed from the real SSA/IR; after `limit` calls on one path the result is assumed non-zero
    (bound on the key-generation retry loop: each retry needs a fresh HKDF output that is 0 mod r)"""
    def f(ex, a, ins):
        n = ex.pstate.get('mapToFr_calls', 0) + 1
        ex.pstate['mapToFr_calls'] = n
        fn = ex.prog.funcs[P + 'mapToFr']
        key = tuple((b if isinstance(b, int) else b.get_id()) for b in ex.read_bytes(a[1]))
        r = ex.run(fn, a)
        if force_first_zero:
            # hypothetical: the first byte string ever mapped is 0 mod r (cannot be produced natively: it
            # needs an HKDF output that is a multiple of r); the same string is zero on every later call
            fz = ex.pstate.setdefault('mapToFr_forced', key)
            if fz == key:
                ex.events.append(('reach', 'forced zero'))
                return True
        if n > limit:
            c = bnot(r)
            if c is False or (c is not True and not ex.feasible(c)):
                raise PathEnd('assume_false')
            ex.assumes.append('mapToFr retry bound')
            if c is not True:
                ex.add(c)
            return False
        return r
    return f

def install(ex):
    ex.stubs[P + 'frIsOS2IPModR'] = fr_is_os2ip_mod_r
    ex.stubs[P + 'randFr'] = rand_fr(False)
    ex.stubs[P + 'randFrStar'] = rand_fr(True)
    ex.stubs[P + 'nondetFr'] = nondet_fr(False)
    ex.stubs[P + 'nondetFrStar'] = nondet_fr(True)
