# Go-side harness primitives of the algebraic model: symbolic field elements as generators.
import z3
from .core import *
from . import galg

P = 'github.com/onflow/crypto.'

def nondet_fr(star):
    def f(ex, a, ins):
        g = galg.new_gen(ex, 'fr')
        v = galg.mvar(ex, (g,))
        ex.nondets.append(('fr', v, 256))
        if star:
            ex.add(v != 0)
        galg.sc_write(ex, a[0], galg.Poly.gen(g))
        return None
    return f

def rand_fr(star):
    """randFr / randFrStar (dealer polynomial coefficients): arbitrary field elements; the derivation from
    the seed through SHA3 / ChaCha20 / map_bytes_to_Fr is outside the threshold-signature check"""
    def f(ex, a, ins):
        g = galg.new_gen(ex, 'pa')
        v = galg.mvar(ex, (g,))
        if star:
            ex.add(v != 0)
        galg.sc_write(ex, a[0], galg.Poly.gen(g))
        return None if star else simp(v == 0)
    return f

def install(ex):
    ex.stubs[P + 'randFr'] = rand_fr(False)
    ex.stubs[P + 'randFrStar'] = rand_fr(True)
    ex.stubs[P + 'nondetFr'] = nondet_fr(False)
    ex.stubs[P + 'nondetFrStar'] = nondet_fr(True)
