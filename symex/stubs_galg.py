# Go-side harness primitives of the algebraic model: symbolic field elements as generators.
import z3
from .core import *
from . import galg

P = 'github.com/onflow/crypto.'

def nondet_fr(star):
    def f(ex, a, ins):
        g = galg.new_gen(ex, 'fr')
        v = galg.mvar(ex, (g,))
        ex.nondets.append(('fr', v, 256))
        if star:
            ex.add(v != 0)
        galg.sc_write(ex, a[0], galg.Poly.gen(g))
        return None
    return f

def rand_fr(star):
    """randFr / randFrStar (dealer polynomial coefficients): arbitrary field elements; the derivation from
    the seed through SHA3 / ChaCha20 / map_bytes_to_Fr is outside the threshold-signature check"""
    def f(ex, a, ins):
        if getattr(ex, 'galg_formal_coeffs', False):
            # large signer sets: the dealer's random coefficients are formal indeterminates (generic values;
            # polynomial identities are then decided by coefficient comparison, stated in the bounds)
            g = galg.new_gen(ex, 'hpa')
            galg.sc_write(ex, a[0], galg.Poly.gen(g))
            return None if star else False
        g = galg.new_gen(ex, 'pa')
        v = galg.mvar(ex, (g,))
        if star:
            ex.add(v != 0)
        galg.sc_write(ex, a[0], galg.Poly.gen(g))
        return None if star else simp(v == 0)
    return f

def fr_is_os2ip_mod_r(ex, a, ins):
    """frIsOS2IPModR(x, b): the scalar x is OS2IP(b) mod r -- compared as exact linear forms over Z_r in the
    bytes of b (coefficients folded by the encoder), residual condition decided by the solver"""
    px = galg.sc_read(ex, a[0])
    pb = galg.os2ip_poly(ex, ex.read_bytes(a[1]))
    return galg.zero_cond(ex, px - pb)

def map_to_fr_cut(limit, force_first_zero=False):
    """mapToFr executed from the real SSA/IR; after `limit` calls on one path the result is assumed non-zero
    (bound on the key-generation retry loop: each retry needs a fresh HKDF output that is 0 mod r)"""
    def f(ex, a, ins):
        n = ex.pstate.get('mapToFr_calls', 0) + 1
        ex.pstate['mapToFr_calls'] = n
        fn = ex.prog.funcs[P + 'mapToFr']
        key = tuple((b if isinstance(b, int) else b.get_id()) for b in ex.read_bytes(a[1]))
        r = ex.run(fn, a)
        if force_first_zero:
            # hypothetical: the first byte string ever mapped is 0 mod r (cannot be produced natively: it
            # needs an HKDF output that is a multiple of r); the same string is zero on every later call
            fz = ex.pstate.setdefault('mapToFr_forced', key)
            if fz == key:
                ex.events.append(('reach', 'forced zero'))
                return True
        if n > limit:
            c = bnot(r)
            if c is False or (c is not True and not ex.feasible(c)):
                raise PathEnd('assume_false')
            ex.assumes.append('mapToFr retry bound')
            if c is not True:
                ex.add(c)
            return False
        return r
    return f

def limb_lemma(ex, a, ins):
    """zzC06_limbLemma(deg, pattern): run the real E1_lagrange_interpolate_at_zero_write (LLVM IR) on deg+1
    symbolic, distinct, non-zero signer indices (relative order fixed per case) and symbolic share bytes.
    (1) Implementation-independent: no unsigned 64-bit multiplication inside the Lagrange functions may wrap
    around. (2) If the batching has the structure of the pinned code (one numerator and one denominator limb
    per batch of 8 indices and per coefficient), the factors of every limb are exactly x_j and |x_j - x_i|,
    j != i, and the denominator is negated iff an odd number of indices are below x_i."""
    deg, pattern = signed(a[0], 64), signed(a[1], 64)
    idx = [ex.nondet('u8', 8) for _ in range(deg + 1)]
    import random as _r
    order = list(range(deg + 1))
    if pattern == 1:
        order.reverse()
    elif pattern >= 2:
        _r.Random(pattern).shuffle(order)
    for u, v in zip(order, order[1:]):
        ex.add(z3.ULT(idx[u], idx[v]))
    for v in idx:
        ex.add(v != 0)
        ex.add(z3.ULE(v, z3.BitVecVal(254, 8)))     # index+1 of a participant in [0, 253]
    if ex.check() != z3.sat:
        raise PathEnd('assume_false')
    arr = ex.make_bytes(idx, 'indices')
    L = ex.llvm
    # the shares are irrelevant to the coefficient computation: point decoding, the multi-scalar
    # multiplication and the final encoding are replaced by no-ops for this lemma (they are exercised by the
    # other C06 cases)
    shares = ex.make_bytes([0] * (48 * (deg + 1)), 'shares')
    dest = ex.make_bytes([0] * 48, 'dest')
    ex.c_mul_nowrap = set(n for n in L.mod.funcs if 'lagrange' in n.lower())
    ex.galg_unlinked_atoms = True      # field values built from the limbs are opaque here (their relation to the limb bits is not needed)
    limbs, negs = [], []
    orig = L.stubs.get('@Fr_set_limb')
    def set_limb(LL, ex2, args, I):
        limbs.append(args[1])
        if orig is not None:
            return orig(LL, ex2, args, I)
        return LL.run(ex2, LL.mod.funcs['@Fr_set_limb'], args)
    neg_orig = L.stubs.get('@Fr_neg')
    def fr_neg(LL, ex2, args, I):
        negs.append(len(limbs))
        if neg_orig is not None:
            return neg_orig(LL, ex2, args, I)
        return LL.run(ex2, LL.mod.funcs['@Fr_neg'], args)
    L.stubs['@Fr_set_limb'] = set_limb
    L.stubs['@Fr_neg'] = fr_neg
    saved = {nm: L.stubs.get(nm) for nm in ('@E1_read_bytes', '@E1_multi_scalar', '@E1_write_bytes')}
    L.stubs['@E1_read_bytes'] = lambda LL, e2, args, I: 0          # VALID
    L.stubs['@E1_multi_scalar'] = lambda LL, e2, args, I: None
    L.stubs['@E1_write_bytes'] = lambda LL, e2, args, I: None
    try:
        L.call(ex, '@E1_lagrange_interpolate_at_zero_write', [dest.ptr, shares.ptr, arr.ptr, deg & 0xffffffff])
    finally:
        for nm, o in list(saved.items()) + [('@Fr_set_limb', orig), ('@Fr_neg', neg_orig)]:
            if o is not None:
                L.stubs[nm] = o
            else:
                L.stubs.pop(nm, None)
        ex.c_mul_nowrap = None
        ex.galg_unlinked_atoms = False
    log = ex.pstate.get('mul_log', [])
    nb = (deg + 1 + 7) // 8
    ex.events.append(('assert', 'limb batches'))
    if len(limbs) == 2 * nb * (deg + 1) and len(log) == 2 * deg * (deg + 1):
        pos = 0
        for i in range(deg + 1):
            for jj in range(deg + 1):
                if jj == i:
                    continue
                xi, xj = z3.ZeroExt(56, idx[i]), z3.ZeroExt(56, idx[jj])
                ex.verif_assert(tobv(log[pos][1], 64) == z3.If(z3.ULT(xj, xi), xi - xj, xj - xi), 'factor multiplied into the denominator limb is |x_j - x_i|')
                ex.verif_assert(tobv(log[pos + 1][1], 64) == xj, 'factor multiplied into the numerator limb is x_j')
                pos += 2
            par = z3.BoolVal(False)
            for jj in range(deg + 1):
                if jj != i:
                    par = z3.Xor(par, z3.ULT(idx[jj], idx[i]))
            negated = any(2 * nb * i < k <= 2 * nb * (i + 1) for k in negs)
            ex.verif_assert(par == z3.BoolVal(negated), 'the denominator is negated iff an odd number of indices are below x_i')
        ex.events.append(('note', 'limb lemma (batch structure of the pinned code)'))
    else:
        ex.events.append(('note', 'limb lemma (different batching structure: wrap-around check only)'))
    ex.events.append(('reach', 'limb lemma'))
    return None

def install(ex):
    ex.stubs[P + 'zzC06_limbLemma'] = limb_lemma
    ex.stubs[P + 'frIsOS2IPModR'] = fr_is_os2ip_mod_r
    ex.stubs[P + 'randFr'] = rand_fr(False)
    ex.stubs[P + 'randFrStar'] = rand_fr(True)
    ex.stubs[P + 'nondetFr'] = nondet_fr(False)
    ex.stubs[P + 'nondetFrStar'] = nondet_fr(True)
