# Contract stubs for C functions that are not interpreted: libc, and BLST family-A field/byte
# primitives (assembly or deep loops). Contracts are exact on integers where the glue depends on it
# (add/sub/cneg/compare, including non-reduced inputs) and algebraic (uninterpreted + rewrite rules)
# for Montgomery multiplication, square roots and sign. See DESIGN.md 2.4.
import z3
from .core import *

P381 = 0x1a0111ea397fe69a4b1ba7b6434bacd764774b84f38512bf6730d2a0f6b0f6241eabfffeb153ffffb9feffffffffaaab
R255 = 0x73eda753299d7d483339d80809a1d80553bda402fffe5bfeffffffff00000001
RMONT384 = (1 << 384) % P381          # R mod p = "one" in Montgomery form
RR384 = pow(1 << 384, 2, P381)
RMONT256 = (1 << 256) % R255
RR256 = pow(1 << 256, 2, R255)

BV = z3.BitVecSort
MULM = z3.Function('fp_mul_mont', BV(384), BV(384), BV(384))     # a*b/R mod p
TOM = z3.Function('fp_to_mont', BV(384), BV(384))                 # a*R mod p
FROM = z3.Function('fp_from_mont', BV(384), BV(384))              # a/R mod p
ISSQ = z3.Function('fp_is_square', BV(384), z3.BoolSort())
SQRT = z3.Function('fp_sqrt', BV(384), BV(384))
SGN = z3.Function('fp_sgn_mont', BV(384), z3.BoolSort())          # canonical value > (p-1)/2
PTY = z3.Function('fp_pty_mont', BV(384), z3.BoolSort())
MULM2 = z3.Function('fp2_mul_mont', BV(768), BV(768), BV(768))
ISSQ2 = z3.Function('fp2_is_square', BV(768), z3.BoolSort())
SQRT2 = z3.Function('fp2_sqrt', BV(768), BV(768))
MULMR = z3.Function('fr_mul_mont', BV(256), BV(256), BV(256))
TOMR = z3.Function('fr_to_mont', BV(256), BV(256))
FROMR = z3.Function('fr_from_mont', BV(256), BV(256))
INVR = z3.Function('fr_inverse', BV(256), BV(256))

def rd(ex, p, nlimbs):
    """read nlimbs 64-bit limbs at p as one little-endian bit-vector (python int if concrete)"""
    if not isinstance(p, Ptr) or p.obj is None:
        raise GoPanic('c-null-deref', 'field primitive read')
    off = p.off
    if not isinstance(off, int):
        off = ex.concretize(off, 0, p.obj.size, 'limb pointer')
    ex.mem.check(p.obj, off, 8 * nlimbs, 'read')
    ls = []
    for i in range(nlimbs):
        v = ex.mem.read(p.obj, off + 8 * i, 8)
        ls.append(0 if v is None else v)
    if all(isinstance(l, int) for l in ls):
        v = 0
        for i, l in enumerate(ls):
            v |= l << (64 * i)
        return v
    return simp(z3.Concat(*[tobv(l, 64) for l in reversed(ls)]))

def wr(ex, p, nlimbs, v):
    if not isinstance(p, Ptr) or p.obj is None:
        raise GoPanic('c-null-deref', 'field primitive write')
    off = p.off
    if not isinstance(off, int):
        off = ex.concretize(off, 0, p.obj.size, 'limb pointer')
    ex.mem.check(p.obj, off, 8 * nlimbs, 'write')
    for i in range(nlimbs):
        if isinstance(v, int):
            l = (v >> (64 * i)) & mask(64)
        else:
            l = simp(z3.Extract(64 * i + 63, 64 * i, v))
        ex.mem.write(p.obj, off + 8 * i, 8, l)

def is_app(t, f):
    return (not isinstance(t, int)) and z3.is_app(t) and t.decl().eq(f)

def corder(a, A, b, B):
    """deterministic argument order for commutative uninterpreted products: constants first, then by structural hash"""
    ka = (0, a) if isinstance(a, int) else (1, A.hash())
    kb = (0, b) if isinstance(b, int) else (1, B.hash())
    return (A, B) if ka <= kb else (B, A)

# ---- exact modular add/sub/neg on W-bit vectors with modulus m (python int)

def add_mod(a, b, m, W):
    if isinstance(a, int) and isinstance(b, int):
        t = a + b
        return t - m if t >= m else t
    A = z3.ZeroExt(1, tobv(a, W)); B = z3.ZeroExt(1, tobv(b, W)); M = z3.BitVecVal(m, W + 1)
    t = A + B
    return simp(z3.Extract(W - 1, 0, z3.If(z3.UGE(t, M), t - M, t)))

def sub_mod(a, b, m, W):
    if isinstance(a, int) and isinstance(b, int):
        t = a - b
        return (t + m) & mask(W) if t < 0 else t
    A = tobv(a, W); B = tobv(b, W)
    return simp(z3.If(z3.ULT(A, B), A - B + z3.BitVecVal(m, W), A - B))

def cneg_mod(a, flag, m, W):
    if isinstance(flag, int) and flag == 0:
        return a
    if isinstance(a, int):
        n = (m - a) & mask(W) if a != 0 else 0
    else:
        A = tobv(a, W)
        n = simp(z3.If(A == 0, A, z3.BitVecVal(m, W) - A))
    if isinstance(flag, int):
        return n
    return simp(z3.If(tobv(flag, 64) != 0, tobv(n, W), tobv(a, W)))

def _mod_of(ex, p, n):
    m = rd(ex, p, n)
    if not isinstance(m, int):
        raise Unsupported('symbolic modulus')
    return m

# ---- 384-bit field

def mul_mont_384_val(a, b, ex=None):
    if isinstance(a, int) and isinstance(b, int):
        return a * b * pow(1 << 384, -1, P381) % P381
    # multiplication by the constants R^2 and 1 are the Montgomery conversions
    if isinstance(b, int) and b == RR384:
        return to_mont(reduced_p(ex, a))
    if isinstance(a, int) and a == RR384:
        return to_mont(reduced_p(ex, b))
    if isinstance(b, int) and b == 1:
        return from_mont(a)
    if isinstance(a, int) and a == 1:
        return from_mont(b)
    if isinstance(b, int) and b == RMONT384:
        return reduce_p(a)
    if isinstance(a, int) and a == RMONT384:
        return reduce_p(b)
    A, B = tobv(a, 384), tobv(b, 384)
    A, B = corder(a, A, b, B)
    if ex is not None and (isinstance(a, int) or isinstance(b, int)):
        # multiplication by a non-zero constant is injective (instance axioms over the values seen on this path)
        c, v = (a, tobv(b, 384)) if isinstance(a, int) else (b, tobv(a, 384))
        seen = ex.pstate.setdefault('mulc_seen', {}).setdefault(c, [])
        if not any(v.eq(y) for y in seen):
            for y in seen:
                ex.add(z3.Implies(MULM(A, B) == MULM(tobv(c, 384), y), v == y))
            seen.append(v)
    return MULM(A, B)

def reduce_p(a):
    # x*R*R^-1 mod p : identity on reduced values; callers only pass reduced values
    return a

def reduced_p(ex, a):
    """x*R^2*R^-1 mod p is the Montgomery form of x MOD p: the rewrite from_mont(to_mont(x)) = x is only exact for
    x < p, so a raw operand (bytes of the input) that is not provably below p is reduced first (the path forks)"""
    if ex is None or isinstance(a, int) or not z3.is_bv(a):
        return a % P381 if isinstance(a, int) else a
    if z3.is_app(a) and a.decl().kind() == z3.Z3_OP_UNINTERPRETED:
        return a            # outputs of the field model are reduced
    PP = z3.BitVecVal(P381, 384)
    if ex.decide(z3.ULT(a, PP)):
        return a
    return simp(z3.URem(a, PP))

def to_mont(a):
    if isinstance(a, int):
        return a * (1 << 384) % P381
    if is_app(a, FROM):
        return a.arg(0)
    return TOM(tobv(a, 384))

def from_mont(a):
    if isinstance(a, int):
        return a * pow(1 << 384, -1, P381) % P381
    if is_app(a, TOM):
        return a.arg(0)
    return FROM(tobv(a, 384))

def st_add_mod_384(L, ex, a, I):
    m = _mod_of(ex, a[3], 6)
    wr(ex, a[0], 6, add_mod(rd(ex, a[1], 6), rd(ex, a[2], 6), m, 384))

def st_sub_mod_384(L, ex, a, I):
    m = _mod_of(ex, a[3], 6)
    wr(ex, a[0], 6, sub_mod(rd(ex, a[1], 6), rd(ex, a[2], 6), m, 384))

def st_cneg_mod_384(L, ex, a, I):
    m = _mod_of(ex, a[3], 6)
    x = rd(ex, a[1], 6)
    n = cneg_mod(x, a[2], m, 384)
    if not isinstance(x, int) and isinstance(a[2], int) and a[2] != 0 and m == P381:
        # axiom instance (field fact): the sign of -x is the opposite of the sign of x for x != 0
        X = tobv(x, 384); N = tobv(n, 384)
        ex.add(SGN(N) == z3.If(X == 0, SGN(X), z3.Not(SGN(X))))
    wr(ex, a[0], 6, n)

def st_mul_mont_384(L, ex, a, I):
    wr(ex, a[0], 6, mul_mont_384_val(rd(ex, a[1], 6), rd(ex, a[2], 6), ex))

def st_sqr_mont_384(L, ex, a, I):
    x = rd(ex, a[1], 6)
    wr(ex, a[0], 6, mul_mont_384_val(x, x))

def st_from_mont_384(L, ex, a, I):
    wr(ex, a[0], 6, from_mont(rd(ex, a[1], 6)))

def sgn_pty(v):
    """(sign, parity) of the canonical value of Montgomery-form v"""
    c = from_mont(v)
    if isinstance(c, int):
        return c > (P381 - 1) // 2, bool(c & 1)
    if not (is_app(c, FROM)):
        # canonical value is a known term: exact
        return simp(z3.UGT(c, z3.BitVecVal((P381 - 1) // 2, 384))), simp(z3.Extract(0, 0, c) == 1)
    # sign of a negated element flips (elements are non-zero here; y = 0 is not on either curve)
    return SGN(tobv(v, 384)), PTY(tobv(v, 384))

REDC384 = z3.Function('fp_redc_768', BV(768), BV(384))

def st_redc_mont_384(L, ex, a, I):
    """redc_mont_384(ret, a[768 bits], p, n0): ret = a * R^-1 mod p"""
    x = rd(ex, a[1], 12)
    if isinstance(x, int):
        wr(ex, a[0], 6, x * pow(1 << 384, -1, P381) % P381)
        return
    X = tobv(x, 768)
    # hash-to-field: distinct 64-byte digests give distinct field elements (a collision has probability
    # about 2^-128 per pair; stated assumption), as instance axioms over the values seen on this path
    seen = ex.pstate.setdefault('redc_seen', [])
    if not any(X.eq(y) for y in seen):
        for y in seen:
            ex.add(z3.Implies(REDC384(X) == REDC384(y), X == y))
        seen.append(X)
    wr(ex, a[0], 6, REDC384(X))

def st_sgn0_pty_mont_384(L, ex, a, I):
    v = rd(ex, a[0], 6)
    s, p = sgn_pty(v)
    if isinstance(s, bool) and isinstance(p, bool):
        return (int(s) << 1) | int(p)
    return simp(z3.Concat(z3.BitVecVal(0, 62), tobv(s, 1) if not isinstance(s, bool) else z3.BitVecVal(int(s), 1),
                          tobv(p, 1) if not isinstance(p, bool) else z3.BitVecVal(int(p), 1)))

def st_sqrt_fp(L, ex, a, I):
    x = rd(ex, a[1], 6)
    if isinstance(x, int):
        c = x * pow(1 << 384, -1, P381) % P381
        ok = c == 0 or pow(c, (P381 - 1) // 2, P381) == 1
        if ok:
            s = pow(c, (P381 + 1) // 4, P381)
            wr(ex, a[0], 6, s * (1 << 384) % P381)
        return ok
    X = tobv(x, 384)
    # curve fact used as an assumption: neither E1 nor E2 has a point with y = 0 (odd group orders),
    # and square roots are reduced
    ex.add(z3.Implies(ISSQ(X), z3.And(SQRT(X) != 0, z3.ULT(SQRT(X), z3.BitVecVal(P381, 384)))))
    wr(ex, a[0], 6, SQRT(X))
    return ISSQ(X)

# ---- Fp2 (vec384x = two consecutive vec384)

def st_add_mod_384x(L, ex, a, I):
    m = _mod_of(ex, a[3], 6)
    for k in (0, 48):
        wr(ex, a[0].add(k), 6, add_mod(rd(ex, a[1].add(k), 6), rd(ex, a[2].add(k), 6), m, 384))

def st_sub_mod_384x(L, ex, a, I):
    m = _mod_of(ex, a[3], 6)
    for k in (0, 48):
        wr(ex, a[0].add(k), 6, sub_mod(rd(ex, a[1].add(k), 6), rd(ex, a[2].add(k), 6), m, 384))

def _rd2(ex, p):
    lo, hi = rd(ex, p, 6), rd(ex, p.add(48), 6)
    return lo, hi

def _cat2(lo, hi):
    return simp(z3.Concat(tobv(hi, 384), tobv(lo, 384)))

def fp2_mul_val(x, y):
    (a0, a1), (b0, b1) = x, y
    if all(isinstance(v, int) for v in (a0, a1, b0, b1)):
        ri = pow(1 << 384, -1, P381)
        return ((a0 * b0 - a1 * b1) * ri % P381, (a0 * b1 + a1 * b0) * ri % P381)
    A, B = _cat2(a0, a1), _cat2(b0, b1)
    if isinstance(A, int):
        A = z3.BitVecVal(A, 768)
    if isinstance(B, int):
        B = z3.BitVecVal(B, 768)
    if A.hash() > B.hash():
        A, B = B, A
    r = MULM2(A, B)
    return simp(z3.Extract(383, 0, r)), simp(z3.Extract(767, 384, r))

def st_mul_mont_384x(L, ex, a, I):
    lo, hi = fp2_mul_val(_rd2(ex, a[1]), _rd2(ex, a[2]))
    wr(ex, a[0], 6, lo); wr(ex, a[0].add(48), 6, hi)

def st_sqr_mont_384x(L, ex, a, I):
    x = _rd2(ex, a[1])
    lo, hi = fp2_mul_val(x, x)
    wr(ex, a[0], 6, lo); wr(ex, a[0].add(48), 6, hi)

def st_sqrt_fp2(L, ex, a, I):
    lo, hi = _rd2(ex, a[1])
    if isinstance(lo, int) and isinstance(hi, int):
        raise Unsupported('concrete sqrt_fp2')
    X = _cat2(lo, hi)
    r = SQRT2(X)
    PP = z3.BitVecVal(P381, 384)
    # curve fact used as an assumption: no point with y = 0 on E2; roots are reduced
    ex.add(z3.Implies(ISSQ2(X), z3.And(r != 0, z3.ULT(z3.Extract(383, 0, r), PP), z3.ULT(z3.Extract(767, 384, r), PP))))
    wr(ex, a[0], 6, simp(z3.Extract(383, 0, r))); wr(ex, a[0].add(48), 6, simp(z3.Extract(767, 384, r)))
    return ISSQ2(X)

def st_sgn0_pty_mont_384x(L, ex, a, I):
    """sgn0 of an Fp2 element (RFC 9380): sign/parity of c0 unless c0 == 0, then of c1 -- BLST's
    sign bit (bit 1) is 'lexicographically largest': sign(c1) unless c1 == 0, then sign(c0)."""
    lo, hi = _rd2(ex, a[0])
    s0, p0 = sgn_pty(lo)
    s1, p1 = sgn_pty(hi)
    hz = int_binop('==', hi, 0, 384, False)
    lz = int_binop('==', lo, 0, 384, False)
    sign = ite(hz, s0, s1)
    par = ite(lz, p1, p0)
    if isinstance(sign, bool) and isinstance(par, bool):
        return (int(sign) << 1) | int(par)
    return simp(z3.Concat(z3.BitVecVal(0, 62), tobv(sign, 1), tobv(par, 1)))

# ---- 256-bit field (scalars mod r)

def mul_mont_256_val(a, b):
    if isinstance(a, int) and isinstance(b, int):
        return a * b * pow(1 << 256, -1, R255) % R255
    if isinstance(b, int) and b == RR256:
        return to_mont_r(a)
    if isinstance(a, int) and a == RR256:
        return to_mont_r(b)
    if isinstance(b, int) and b == 1:
        return from_mont_r(a)
    if isinstance(a, int) and a == 1:
        return from_mont_r(b)
    A, B = tobv(a, 256), tobv(b, 256)
    A, B = corder(a, A, b, B)
    return MULMR(A, B)

def to_mont_r(a):
    if isinstance(a, int):
        return a * (1 << 256) % R255
    if is_app(a, FROMR):
        return a.arg(0)
    return TOMR(tobv(a, 256))

def from_mont_r(a):
    if isinstance(a, int):
        return a * pow(1 << 256, -1, R255) % R255
    if is_app(a, TOMR):
        return a.arg(0)
    return FROMR(tobv(a, 256))

def st_add_mod_256(L, ex, a, I):
    m = _mod_of(ex, a[3], 4)
    wr(ex, a[0], 4, add_mod(rd(ex, a[1], 4), rd(ex, a[2], 4), m, 256))

def st_sub_mod_256(L, ex, a, I):
    m = _mod_of(ex, a[3], 4)
    wr(ex, a[0], 4, sub_mod(rd(ex, a[1], 4), rd(ex, a[2], 4), m, 256))

def st_cneg_mod_256(L, ex, a, I):
    m = _mod_of(ex, a[3], 4)
    wr(ex, a[0], 4, cneg_mod(rd(ex, a[1], 4), a[2], m, 256))

def st_mul_mont_256(L, ex, a, I):
    wr(ex, a[0], 4, mul_mont_256_val(rd(ex, a[1], 4), rd(ex, a[2], 4)))

def st_sqr_mont_256(L, ex, a, I):
    x = rd(ex, a[1], 4)
    wr(ex, a[0], 4, mul_mont_256_val(x, x))

def st_from_mont_256(L, ex, a, I):
    wr(ex, a[0], 4, from_mont_r(rd(ex, a[1], 4)))

def st_check_mod_256(L, ex, a, I):
    """check_mod_256(pow256 a (32 bytes little endian), vec256 p): 1 iff a < p"""
    v = rd(ex, a[0], 4)
    m = _mod_of(ex, a[1], 4)
    if isinstance(v, int):
        return int(v < m)
    return simp(z3.If(z3.ULT(v, z3.BitVecVal(m, 256)), z3.BitVecVal(1, 64), z3.BitVecVal(0, 64)))

def st_ct_inverse_mod_256(L, ex, a, I):
    """ct_inverse_mod_256(vec512 ret, inp, mod, modx): ret = inp^-1 * (something) ; only used through
    Fr_inv_montg_eucl followed by redc_mont_256: modelled jointly as the field inverse"""
    x = rd(ex, a[1], 4)
    if isinstance(x, int):
        raise Unsupported('concrete ct_inverse')
    X = tobv(x, 256)
    wr(ex, a[0], 4, INVR(X)); wr(ex, a[0].add(32), 4, 0)

def st_redc_mont_256(L, ex, a, I):
    lo = rd(ex, a[1], 4)
    if is_app(lo, INVR):
        # Fr_inv_montg_eucl: res = a^-1 * R  (Montgomery form of the inverse of the Montgomery-form input)
        wr(ex, a[0], 4, lo)
        return
    raise Unsupported('redc_mont_256 on general input')

# ---- vectors

def st_vec_is_zero(L, ex, a, I):
    p, n = a[0], a[1]
    if not isinstance(n, int):
        raise Unsupported('vec_is_zero symbolic size')
    off = p.off
    ex.mem.check(p.obj, off, n, 'read')
    acc = True
    k = 0
    while k < n:
        if n - k >= 8:
            v = ex.mem.read(p.obj, off + k, 8); w = 64; k += 8
        else:
            v = ex.mem.read(p.obj, off + k, 1); w = 8; k += 1
        if v is None:
            v = 0
        acc = band(acc, int_binop('==', v, 0, w, False))
        if acc is False:
            return 0
    if isinstance(acc, bool):
        return int(acc)
    return simp(z3.If(acc, z3.BitVecVal(1, 64), z3.BitVecVal(0, 64)))

def st_vec_is_equal(L, ex, a, I):
    p, q, n = a
    if not isinstance(n, int):
        raise Unsupported('vec_is_equal symbolic size')
    ex.mem.check(p.obj, p.off, n, 'read'); ex.mem.check(q.obj, q.off, n, 'read')
    acc = True
    k = 0
    while k < n:
        if n - k >= 8:
            u = ex.mem.read(p.obj, p.off + k, 8); v = ex.mem.read(q.obj, q.off + k, 8); w = 64; k += 8
        else:
            u = ex.mem.read(p.obj, p.off + k, 1); v = ex.mem.read(q.obj, q.off + k, 1); w = 8; k += 1
        u = 0 if u is None else u
        v = 0 if v is None else v
        acc = band(acc, int_binop('==', u, v, w, False))
        if acc is False:
            return 0
    if isinstance(acc, bool):
        return int(acc)
    return simp(z3.If(acc, z3.BitVecVal(1, 64), z3.BitVecVal(0, 64)))

def st_vec_zero(L, ex, a, I):
    p, n = a
    if not isinstance(n, int):
        n = ex.concretize(n, 0, 1 << 16, 'vec_zero size')
    off = p.off
    if n == 0:
        return
    ex.mem.check(p.obj, off, n, 'write')
    k = 0
    while k < n:
        if n - k >= 8 and (off + k) % 8 == 0:
            ex.mem.write(p.obj, off + k, 8, 0); k += 8
        else:
            ex.mem.write(p.obj, off + k, 1, 0); k += 1

def st_vec_copy(L, ex, a, I):
    d, s, n = a
    if not isinstance(n, int):
        n = ex.concretize(n, 0, 1 << 16, 'vec_copy size')
    ex.memmove(d, s, n)

def st_vec_select(nbytes):
    def f(L, ex, a, I):
        ret, x, y, sel = a
        if isinstance(sel, int):
            ex.memmove(ret, x if sel else y, nbytes)
            return
        c = tobv(sel, 64) != 0
        for k in range(0, nbytes, 8):
            u = ex.mem.read(x.obj, x.off + k, 8); v = ex.mem.read(y.obj, y.off + k, 8)
            ex.mem.write(ret.obj, ret.off + k, 8, ite(c, 0 if u is None else u, 0 if v is None else v, 64))
    return f

# ---- libc

def st_memcpy(L, ex, a, I):
    d, s, n = a[0], a[1], a[2]
    if not isinstance(n, int):
        n = ex.concretize(n, 0, 1 << 16, 'memcpy size')
    if n:
        ex.memmove(d, s, n)
    return d

def st_memcmp(L, ex, a, I):
    """memcmp / bcmp (concrete size): 0 iff the ranges are equal, else the sign of the first difference"""
    p, q, n = a[0], a[1], a[2]
    if not isinstance(n, int):
        n = ex.concretize(n, 0, 1 << 16, 'memcmp size')
    if n == 0:
        return 0
    po, qo = p.off, q.off
    if not isinstance(po, int):
        po = ex.concretize(po, 0, p.obj.size, 'memcmp ptr')
    if not isinstance(qo, int):
        qo = ex.concretize(qo, 0, q.obj.size, 'memcmp ptr')
    ex.mem.check(p.obj, po, n, 'read'); ex.mem.check(q.obj, qo, n, 'read')
    res = z3.BitVecVal(0, 32)
    allint = True
    for k in reversed(range(n)):
        x, y = ex.mem.byte_at(p.obj, po + k), ex.mem.byte_at(q.obj, qo + k)
        if isinstance(x, int) and isinstance(y, int):
            if x != y:
                res = z3.BitVecVal(0xffffffff if x < y else 1, 32)
            continue
        allint = False
        X, Y = tobv(x, 8), tobv(y, 8)
        res = z3.If(X == Y, res, z3.If(z3.ULT(X, Y), z3.BitVecVal(0xffffffff, 32), z3.BitVecVal(1, 32)))
    res = simp(res)
    return res.as_long() if z3.is_bv_value(res) else res

def st_memset(L, ex, a, I):
    d, c, n = a[0], a[1], a[2]
    if not isinstance(n, int):
        n = ex.concretize(n, 0, 1 << 16, 'memset size')
    if n:
        off = d.off
        if not isinstance(off, int):
            off = ex.concretize(off, 0, d.obj.size, 'memset dst')
        ex.mem.check(d.obj, off, n, 'write')
        c8 = c & 0xff if isinstance(c, int) else simp(z3.Extract(7, 0, c))
        for k in range(n):
            ex.mem.write(d.obj, off + k, 1, c8)
    return d

def st_malloc(L, ex, a, I):
    n = a[0]
    if not isinstance(n, int):
        n = ex.concretize(n, 0, 1 << 20, 'malloc size')
    o = ex.mem.alloc(n, False, 'malloc%d' % (ex.mem.n + 1), 'c')
    o.meta = {'malloc': True}
    ex.pstate.setdefault('mallocs', []).append(o)
    return Ptr(o, 0)

def st_free(L, ex, a, I):
    p = a[0]
    if p.obj is None:
        return
    if not (p.obj.meta and p.obj.meta.get('malloc')) or p.off != 0:
        raise GoPanic('c-bad-free', 'free of %r' % (p,))
    if p.obj.freed:
        raise GoPanic('c-double-free', p.obj.label)
    p.obj.freed = True

def st_assert_fail(L, ex, a, I):
    raise GoPanic('c-assert', 'assertion failed in C')

# ---- minimal curve-level stubs (coordinate level, no algebra): membership, affine conversion

ING1 = z3.Function('E1_in_G1', BV(384), BV(384), BV(384), z3.BoolSort())
ING2 = z3.Function('E2_in_G2', BV(768), BV(768), BV(768), z3.BoolSort())
AFF1 = z3.Function('E1_affine_xy', BV(384), BV(384), BV(384), BV(768))
AFF2 = z3.Function('E2_affine_xy', BV(768), BV(768), BV(768), BV(1536))

def rd_big(ex, p, nlimbs):
    v = rd(ex, p, nlimbs)
    return tobv(v, 64 * nlimbs)

def b2l(c):
    if isinstance(c, bool):
        return int(c)
    return simp(z3.If(c, z3.BitVecVal(1, 64), z3.BitVecVal(0, 64)))

def st_E1_in_G1(L, ex, a, I):
    p = a[0]
    return b2l(ING1(rd_big(ex, p, 6), rd_big(ex, p.add(48), 6), rd_big(ex, p.add(96), 6)))

def st_E2_in_G2(L, ex, a, I):
    p = a[0]
    z = rd_big(ex, p.add(192), 12)
    # the point at infinity (Z = 0) is in G2
    return b2l(z3.Or(z == 0, ING2(rd_big(ex, p, 12), rd_big(ex, p.add(96), 12), z)))

def st_E1_from_jacobian(L, ex, a, I):
    out, p = a
    x, y, z = rd_big(ex, p, 6), rd_big(ex, p.add(48), 6), rd_big(ex, p.add(96), 6)
    r = AFF1(x, y, z)
    isinf = z == 0
    wr(ex, out, 6, simp(z3.If(isinf, x, z3.Extract(383, 0, r))))
    wr(ex, out.add(48), 6, simp(z3.If(isinf, y, z3.Extract(767, 384, r))))
    wr(ex, out.add(96), 6, simp(z3.If(isinf, z, z3.BitVecVal(RMONT384, 384))))

def st_E2_from_jacobian(L, ex, a, I):
    out, p = a
    x, y, z = rd_big(ex, p, 12), rd_big(ex, p.add(96), 12), rd_big(ex, p.add(192), 12)
    r = AFF2(x, y, z)
    isinf = z == 0
    wr(ex, out, 12, simp(z3.If(isinf, x, z3.Extract(767, 0, r))))
    wr(ex, out.add(96), 12, simp(z3.If(isinf, y, z3.Extract(1535, 768, r))))
    wr(ex, out.add(192), 12, simp(z3.If(isinf, z, z3.BitVecVal(RMONT384, 768))))

def st_mult_by_one(nbytes):
    """POINTonE?_mult_glv/gls(out, P, scalar): only the multiplication by the concrete scalar 1 is modelled in this
    stub family (out = P); it is what derives the public key of the private key 1 = the standard generator"""
    def f(L, ex, a, I):
        out, P, sc = a[0], a[1], a[2]
        k = 0
        for i in range(32):
            b = ex.mem.byte_at(sc.obj, sc.off + i)
            if not isinstance(b, int):
                raise Unsupported('scalar multiplication by a symbolic scalar (field-primitive stub family)')
            k |= b << (8 * i)
        if k != 1:
            raise Unsupported('scalar multiplication by %d (field-primitive stub family models only 1)' % k)
        ex.memmove(out, P, nbytes)
    return f

def install(L):
    S = L.stubs
    S.setdefault('@POINTonE1_mult_glv', st_mult_by_one(144))
    S.setdefault('@POINTonE2_mult_gls', st_mult_by_one(288))
    S['@POINTonE1_in_G1'] = st_E1_in_G1
    S['@POINTonE2_in_G2'] = st_E2_in_G2
    S['@POINTonE1_from_Jacobian'] = st_E1_from_jacobian
    S['@POINTonE2_from_Jacobian'] = st_E2_from_jacobian
    for n in ('@add_mod_384',): S[n] = st_add_mod_384
    S['@sub_mod_384'] = st_sub_mod_384
    S['@cneg_mod_384'] = st_cneg_mod_384
    for n in ('@mulx_mont_384', '@mul_mont_384'): S[n] = st_mul_mont_384
    for n in ('@sqrx_mont_384', '@sqr_mont_384'): S[n] = st_sqr_mont_384
    for n in ('@fromx_mont_384', '@from_mont_384'): S[n] = st_from_mont_384
    for n in ('@sgn0x_pty_mont_384', '@sgn0_pty_mont_384'): S[n] = st_sgn0_pty_mont_384
    for n in ('@sgn0x_pty_mont_384x', '@sgn0_pty_mont_384x'): S[n] = st_sgn0_pty_mont_384x
    S['@sqrt_fp'] = st_sqrt_fp
    for n in ('@redcx_mont_384', '@redc_mont_384'): S[n] = st_redc_mont_384
    S['@sqrt_fp2'] = st_sqrt_fp2
    S['@add_mod_384x'] = st_add_mod_384x
    S['@sub_mod_384x'] = st_sub_mod_384x
    for n in ('@mulx_mont_384x', '@mul_mont_384x'): S[n] = st_mul_mont_384x
    for n in ('@sqrx_mont_384x', '@sqr_mont_384x'): S[n] = st_sqr_mont_384x
    S['@add_mod_256'] = st_add_mod_256
    S['@sub_mod_256'] = st_sub_mod_256
    S['@cneg_mod_256'] = st_cneg_mod_256
    for n in ('@mulx_mont_sparse_256', '@mul_mont_sparse_256'): S[n] = st_mul_mont_256
    for n in ('@sqrx_mont_sparse_256', '@sqr_mont_sparse_256'): S[n] = st_sqr_mont_256
    for n in ('@fromx_mont_256', '@from_mont_256'): S[n] = st_from_mont_256
    for n in ('@redcx_mont_256', '@redc_mont_256'): S[n] = st_redc_mont_256
    S['@check_mod_256'] = st_check_mod_256
    S['@ct_inverse_mod_256'] = st_ct_inverse_mod_256
    S['@vec_is_zero'] = st_vec_is_zero
    S['@vec_is_zero_16x'] = st_vec_is_zero
    S['@vec_is_equal'] = st_vec_is_equal
    S['@vec_is_equal_16x'] = st_vec_is_equal
    S['@vec_zero'] = st_vec_zero
    S['@vec_copy'] = st_vec_copy
    for nb in (32, 48, 96, 144, 192, 288):
        S['@vec_select_%d' % nb] = st_vec_select(nb)
    S['@memcpy'] = st_memcpy
    S['@llvm.memcpy.p0i8.p0i8.i64'] = st_memcpy
    S['@memset'] = st_memset
    S['@memcmp'] = st_memcmp
    S['@bcmp'] = st_memcmp
    S['@llvm.memset.p0i8.i64'] = st_memset
    S['@malloc'] = st_malloc
    S['@free'] = st_free
    S['@__assert_fail'] = st_assert_fail
    S['@llvm.stacksave'] = lambda L, ex, a, I: NIL
    S['@llvm.stackrestore'] = lambda L, ex, a, I: None
    S['@vec_prefetch'] = lambda L, ex, a, I: None
    S['@types_sanity'] = lambda L, ex, a, I: None

TRUSTED_A = [
 'add_mod_384/256, sub_mod_384/256, cneg_mod_384/256: exact integer semantics incl. non-reduced inputs (bit-vector arithmetic)',
 'mul(x)_mont_384, sqr(x)_mont_384, from(x)_mont_384: uninterpreted commutative product with rewrite rules for the Montgomery constants (x*R^2 -> to_mont(x mod p) with a fork on x < p for raw operands, from_mont(to_mont(x)) = x)',
 'sqrt_fp / sqrt_fp2: uninterpreted (is_square, root) of the argument term',
 'sgn0(x)_pty_mont_384(x): exact sign/parity when the canonical value is a known term, otherwise uninterpreted of the Montgomery term',
 'vec_is_zero, vec_is_equal, vec_zero, vec_copy, vec_select_N: exact on bytes',
 'memcpy, memset, malloc (fresh uninitialised object), free (checks double free / bad pointer)',
]
