//go:build verif_harness

package random

import (
	"encoding/binary"

	"golang.org/x/crypto/chacha20"
)

// refChachaBlock is the RFC 8439 block function: key-stream block number ctr for (key, nonce).
// The symbolic executor replaces it by the same uninterpreted function it uses for the block
// function inside x/crypto/chacha20; natively it is computed with a fresh cipher.
func refChachaBlock(key []byte, nonce []byte, ctr uint32) [64]byte {
	c, err := chacha20.NewUnauthenticatedCipher(key, nonce)
	if err != nil {
		panic(err)
	}
	c.SetCounter(ctr)
	var out [64]byte
	c.XORKeyStream(out[:], out[:])
	return out
}

// refStreamCheck asserts got == keystream[pos : pos+len(got)] for (seed, zero-padded customizer),
// where pos = 64*blk + off (blk may be symbolic, off is concrete).
func refStreamCheck(seed, cust []byte, blk uint32, off int, got []byte, what string) {
	nonce := make([]byte, 12)
	copy(nonce, cust)
	i := 0
	for i < len(got) {
		b := refChachaBlock(seed, nonce, blk)
		for off < 64 && i < len(got) {
			verifAssert(got[i] == b[off], what)
			off++
			i++
		}
		off = 0
		blk++
	}
}

// zzC14_stream: for every seed and customizer (length custLen), reads of sizes r1, r2, r3 return
// consecutive key-stream bytes starting at position 0; Store() has the documented layout at every
// point, and a generator restored from it continues the stream exactly.
func zzC14_stream(custLen, r1, r2, r3 int) {
	seed := nondetBytes(32)
	cust := nondetBytes(custLen)
	seed0 := append([]byte{}, seed...)
	cust0 := append([]byte{}, cust...)
	p, err := NewChacha20PRG(seed, cust)
	verifAssert(err == nil, "valid seed/customizer accepted")
	pos := uint64(0)
	for _, r := range []int{r1, r2} {
		buf := nondetBytes(r) // arbitrary previous content of the caller's buffer
		p.Read(buf)
		refStreamCheck(seed0, cust0, uint32(pos/64), int(pos%64), buf, "Read returns the key stream at the running position")
		pos += uint64(r)
		verifAssert(p.core.bytesCounter == pos, "bytesCounter equals the number of bytes output")
	}
	st := p.Store()
	verifAssert(len(st) == 52, "state is 52 bytes")
	for i := 0; i < 32; i++ {
		verifAssert(st[i] == seed0[i], "state[0:32] = seed")
	}
	for i := 0; i < 12; i++ {
		want := byte(0)
		if i < custLen {
			want = cust0[i]
		}
		verifAssert(st[32+i] == want, "state[32:44] = zero-padded customizer")
	}
	verifAssert(binary.LittleEndian.Uint64(st[44:]) == pos, "state[44:52] = LE64(bytes output)")
	q, err := RestoreChacha20PRG(st)
	verifAssert(err == nil, "stored state restores")
	a := nondetBytes(r3)
	b := nondetBytes(r3)
	p.Read(a)
	q.Read(b)
	refStreamCheck(seed0, cust0, uint32(pos/64), int(pos%64), a, "original continues the key stream")
	refStreamCheck(seed0, cust0, uint32(pos/64), int(pos%64), b, "restored generator continues the key stream exactly")
	verifAssert(q.core.bytesCounter == pos+uint64(r3), "restored bytesCounter advances")
	for i := 0; i < 32; i++ {
		verifAssert(seed[i] == seed0[i], "seed argument unmodified")
	}
	verifReach("stream checked")
}

// zzC14_checkpoints: stored states are values: a state taken earlier is not changed by later reads or later
// Store calls, and restoring it resumes at ITS position (two checkpoints r1 and r1+r2 bytes into the stream)
func zzC14_checkpoints(custLen, r1, r2 int) {
	seed := nondetBytes(Chacha20SeedLen)
	cust := nondetBytes(custLen)
	g, err := NewChacha20PRG(seed, cust)
	verifAssert(err == nil, "constructor")
	var cnst [Chacha20CustomizerMaxLen]byte
	copy(cnst[:], cust)
	b1 := make([]byte, r1)
	g.Read(b1)
	s1 := g.Store()
	s1copy := append([]byte{}, s1...)
	b2 := make([]byte, r2)
	g.Read(b2)
	s2 := g.Store()
	assertEqBytes(s1, s1copy, "the first stored state is unchanged by later reads and a later Store")
	verifAssert(loadLE64(s1[len(s1)-8:]) == uint64(r1), "first checkpoint records r1 bytes")
	verifAssert(loadLE64(s2[len(s2)-8:]) == uint64(r1+r2), "second checkpoint records r1+r2 bytes")
	h, err := RestoreChacha20PRG(s1)
	verifAssert(err == nil, "restore of the first checkpoint")
	out := make([]byte, r2)
	h.Read(out)
	assertEqBytes(out, b2, "the generator restored from the first checkpoint repeats the bytes that followed it")
	verifReach("checkpoints")
}

func loadLE64(b []byte) uint64 {
	v := uint64(0)
	for i := 7; i >= 0; i-- {
		v = v<<8 | uint64(b[i])
	}
	return v
}

// zzC14_restore_any: restoring from ANY stored counter c < 2^38-r (symbolic 64-bit, block part not
// case-split) yields exactly keystream[c : c+r]; the offset inside the block (c mod 64) is forked.
func zzC14_restore_any(r int) {
	seed := nondetBytes(32)
	cust := nondetBytes(12)
	c := nondetU64()
	verifAssume(c < (1<<38)-uint64(r)-64)
	off := verifConcretize(c%64, 0, 63)
	verifAssume(c%64 == off)
	st := make([]byte, 0, 52)
	st = append(st, seed...)
	st = append(st, cust...)
	var cb [8]byte
	binary.LittleEndian.PutUint64(cb[:], c)
	st = append(st, cb[:]...)
	q, err := RestoreChacha20PRG(st)
	verifAssert(err == nil, "state restores")
	verifAssert(q.core.bytesCounter == c, "bytesCounter restored")
	b := nondetBytes(r)
	q.Read(b)
	refStreamCheck(seed, cust, uint32(c/64), int(off), b, "restored generator outputs keystream[c:c+r]")
	st2 := q.Store()
	verifAssert(binary.LittleEndian.Uint64(st2[44:]) == c+uint64(r), "stored counter advanced by r")
	for i := 0; i < 44; i++ {
		verifAssert(st2[i] == st[i], "seed and customizer preserved by restore/store")
	}
	verifReach("restore_any checked")
}

// zzC14_lengths: invalid seed / customizer / state lengths are rejected with an error.
func zzC14_lengths(seedLen, custLen, stateLen int) {
	seed := nondetBytes(seedLen)
	cust := nondetBytes(custLen)
	p, err := NewChacha20PRG(seed, cust)
	verifAssert((err == nil) == (seedLen == 32 && custLen <= 12), "constructor accepts exactly seed=32, customizer<=12")
	verifAssert((p == nil) == (err != nil), "nil generator iff error")
	st := nondetBytes(stateLen)
	q, err := RestoreChacha20PRG(st)
	verifAssert((err == nil) == (stateLen == 52), "restore accepts exactly 52 bytes")
	verifAssert((q == nil) == (err != nil), "nil generator iff error")
	verifReach("lengths checked")
}

func assertEqBytes(got, want []byte, what string) {
	verifAssert(len(got) == len(want), what+" (length)")
	if len(got) != len(want) {
		return
	}
	for i := range got {
		verifAssert(got[i] == want[i], what)
	}
}
