//go:build verif_harness

package random

// tapeCore is the random source as an arbitrary tape: every byte Read returns is a
// fresh symbolic byte. maxReads bounds the rejection loop (stated bound).
type tapeCore struct {
	reads    int
	maxReads int
	lastLen  int
}

func (t *tapeCore) Read(b []byte) {
	verifAssume(t.reads < t.maxReads)
	t.reads++
	t.lastLen = len(b)
	for i := range b {
		b[i] = nondetByte()
	}
}

// zzC15_UintN_range: for every n != 0, every pre-state of the shared buffer and every tape,
// UintN(n) < n
func zzC15_UintN_range() {
	n := nondetU64()
	verifAssume(n != 0)
	t := &tapeCore{maxReads: 2}
	p := &genericPRG{randCore: t}
	for i := range p.uintnBuffer {
		p.uintnBuffer[i] = nondetByte()
	}
	r := p.UintN(n)
	verifReach("UintN returned")
	verifAssert(r < n, "UintN result < n")
}
