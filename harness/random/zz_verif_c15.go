//go:build verif_harness

package random

// Harnesses for C15 (sampling helpers). The random source is an arbitrary tape: every
// byte Read returns is a fresh symbolic byte; the tape records what it handed out.

type tapeCore struct {
	reads    int
	maxReads int        // bound on the number of Read calls (rejection loop unwinding)
	lastLen  int        // length of the last Read
	last     [8]byte    // bytes of the last Read (len <= 8 for UintN)
	vals     [80]uint64 // little-endian value of each Read (len <= 8)
	rec      []byte     // if non-nil, every byte handed out is appended here
	fixed    []byte     // if non-nil, bytes to hand out instead of fresh ones
	fixedPos int
}

func (t *tapeCore) Read(b []byte) {
	verifAssume(t.reads < t.maxReads)
	t.lastLen = len(b)
	v := uint64(0)
	for i := range b {
		if t.fixed != nil {
			b[i] = t.fixed[t.fixedPos]
			t.fixedPos++
		} else {
			b[i] = nondetByte()
		}
		if t.rec != nil {
			t.rec = append(t.rec, b[i])
		}
		if i < 8 {
			t.last[i] = b[i]
			v |= uint64(b[i]) << (8 * uint(i))
		}
	}
	if t.reads < len(t.vals) {
		t.vals[t.reads] = v
	}
	t.reads++
}

func newTapePRG(maxReads int) (*genericPRG, *tapeCore) {
	t := &tapeCore{maxReads: maxReads}
	p := &genericPRG{randCore: t}
	// the shared 8-byte buffer has an arbitrary pre-state (earlier calls left bytes there)
	for i := range p.uintnBuffer {
		p.uintnBuffer[i] = nondetByte()
	}
	return p, t
}

// zzC15_UintN_contract: for every n != 0 (64-bit symbolic), every buffer pre-state, every tape:
// result < n, at most 8 bytes are read per attempt, and the result is a function of (n, tape) only:
// a second generator with a different stale buffer and the same tape returns the same value
// after the same number of reads (no stale byte of the shared buffer reaches the result).
func zzC15_UintN_contract(maxReads int) {
	n := nondetU64()
	verifAssume(n != 0)
	p, t := newTapePRG(maxReads)
	t.rec = make([]byte, 0, 64)
	r := p.UintN(n)
	verifReach("UintN returned")
	verifAssert(r < n, "UintN result < n")
	verifAssert(t.lastLen <= 8, "read size <= 8")
	verifAssert(t.reads >= 1, "at least one attempt")
	verifAssert(bImplies(n == 1, r == 0), "n = 1 gives 0")
	t2 := &tapeCore{maxReads: maxReads + 1, fixed: append(t.rec, make([]byte, 16)...)}
	p2 := &genericPRG{randCore: t2}
	for i := range p2.uintnBuffer {
		p2.uintnBuffer[i] = nondetByte()
	}
	r2 := p2.UintN(n)
	verifAssert(r2 == r, "result depends on (n, tape) only, not on stale buffer bytes")
	verifAssert(t2.reads == t.reads, "same number of attempts for the same tape")
}

// zzC15_UintN_long: long rejection runs for a concrete n: for every tape with up to maxReads attempts, UintN returns
// exactly the FIRST sample (little-endian bytes of one Read, masked to the bit length of n-1) that is below n:
// every earlier attempt was out of range, the last one is the result unchanged. (This is what makes the output
// exactly uniform: conditioned on acceptance a masked sample is uniform on [0, n).)
func zzC15_UintN_long(n uint64, maxReads int) {
	p, t := newTapePRG(maxReads)
	r := p.UintN(n)
	verifReach("UintN returned")
	mask := uint64(0)
	for mask < n-1 {
		mask = mask<<1 | 1
	}
	verifAssert(r < n, "UintN result < n")
	verifAssert(t.reads >= 1, "at least one attempt")
	for j := 0; j < t.reads-1; j++ {
		verifAssert(t.vals[j]&mask >= n, "only out-of-range samples are rejected")
	}
	verifAssert(t.vals[t.reads-1]&mask == r, "the result is the first in-range sample, unchanged (also after a long run of rejections)")
}

// zzC15_UintN_uniform: exact uniformity as a bijection between preimage sets. For every n, every
// tape T accepted at its first attempt with result v1 and every v2 < n, the tape T xor LE(v1^v2)
// is accepted at its first attempt with result v2.
func zzC15_UintN_uniform() {
	n := nondetU64()
	verifAssume(n != 0)
	p1, t1 := newTapePRG(1)
	v1 := p1.UintN(n)
	v2 := nondetU64()
	verifAssume(v2 < n)
	d := v1 ^ v2
	t2 := &tapeCore{maxReads: 2}
	t2.fixed = make([]byte, 16)
	for i := 0; i < 8; i++ {
		t2.fixed[i] = t1.last[i] ^ byte(d>>(8*uint(i)))
	}
	p2 := &genericPRG{randCore: t2}
	for i := range p2.uintnBuffer {
		p2.uintnBuffer[i] = nondetByte()
	}
	r2 := p2.UintN(n)
	verifReach("second UintN returned")
	verifAssert(t2.reads == t1.reads, "mirrored tape is accepted at the first attempt")
	verifAssert(t2.lastLen == t1.lastLen, "mirrored tape has the same read size")
	verifAssert(r2 == v2, "mirrored tape yields v2: preimage sets of v1 and v2 are in bijection")
}

// decodeInsideOut inverts the inside-out Fisher-Yates: returns j_0..j_{n-1} from the output.
func decodeInsideOut(items []int) []int {
	n := len(items)
	w := make([]int, n)
	copy(w, items)
	js := make([]int, n)
	for i := n - 1; i >= 0; i-- {
		pos := -1
		for k := 0; k <= i; k++ {
			if w[k] == i {
				pos = k
			}
		}
		if pos < 0 {
			return nil
		}
		js[i] = pos
		w[pos] = w[i]
	}
	return js
}

// zzC15_Permutation: for every tape accepted without rejection, Permutation(n) is a permutation of 0..n-1
// and the tape (masked values j_i) is recovered from the output (injective => with n! tapes, bijective;
// each j_i is exactly uniform on [0,i] by the UintN results => every outcome has probability 1/n!).
func zzC15_Permutation(n int) {
	p, t := newTapePRG(n)
	items, err := p.Permutation(n)
	verifAssert(err == nil, "no error for n >= 0")
	verifAssert(len(items) == n, "length n")
	verifAssume(t.reads <= n) // no rejected attempt (each UintN(i+1) with i >= 1 reads once; UintN(1) reads 0 bytes once)
	verifReach("Permutation returned")
	seen := make([]bool, n)
	for _, v := range items {
		verifAssert(bAnd(v >= 0, v < n), "element in range")
		verifAssert(!seen[v], "elements distinct")
		seen[v] = true
	}
	js := decodeInsideOut(items)
	verifAssert(js != nil, "decodable")
	for i := 0; i < n; i++ {
		// j_i as drawn: LE(read i) masked to bitlen(i)
		mask := uint64(0)
		for uint64(i)&mask != uint64(i) {
			mask = (mask << 1) | 1
		}
		verifAssert(uint64(js[i]) == t.vals[i]&mask, "tape recovered from outcome (injective)")
	}
}

// zzC15_SubPermutation: m distinct in-range elements, and argument validation.
func zzC15_SubPermutation(n, m int) {
	p, t := newTapePRG(n + 1)
	items, err := p.SubPermutation(n, m)
	if m < 0 || n < m {
		verifReach("rejected")
		verifAssert(bAnd(err != nil, items == nil), "invalid sizes rejected")
		verifAssert(t.reads == 0, "no randomness consumed on rejection")
		return
	}
	verifAssert(err == nil, "no error")
	verifAssert(len(items) == m, "length m")
	verifAssume(t.reads <= n)
	verifReach("SubPermutation returned")
	seen := make([]bool, n)
	for _, v := range items {
		verifAssert(bAnd(v >= 0, v < n), "element in range")
		verifAssert(!seen[v], "elements distinct")
		seen[v] = true
	}
}

// zzC15_history: the helpers do not depend on what the generator object was used for before (apart from the tape
// position): after a first call with population n1, a call with population n2 still returns valid results
func zzC15_history(n1, m1, n2, m2, which int) {
	p, t := newTapePRG(n1 + n2 + 2)
	switch which {
	case 0:
		_, _ = p.SubPermutation(n1, m1)
	case 1:
		_, _ = p.Permutation(n1)
	default:
		_ = p.Shuffle(n1, func(i, j int) {})
	}
	r0 := t.reads
	items, err := p.SubPermutation(n2, m2)
	verifAssert(err == nil, "no error")
	verifAssert(len(items) == m2, "length m")
	verifAssume(t.reads-r0 <= n2)
	seen := make([]bool, n2)
	for _, v := range items {
		verifAssert(bAnd(v >= 0, v < n2), "element in range (whatever the generator did before)")
		if v >= 0 && v < n2 {
			verifAssert(!seen[v], "elements distinct (whatever the generator did before)")
			seen[v] = true
		}
	}
	perm, err := p.Permutation(n2)
	verifAssert(bAnd(err == nil, len(perm) == n2), "Permutation after other calls")
	seen2 := make([]bool, n2)
	for _, v := range perm {
		verifAssert(bAnd(v >= 0, v < n2), "permutation element in range")
		if v >= 0 && v < n2 {
			verifAssert(!seen2[v], "permutation elements distinct")
			seen2[v] = true
		}
	}
	verifReach("history")
}

// zzC15_Samples: Samples/Shuffle only apply swap(i, i+j) with i the step and i <= i+j < n; the data stays a
// permutation of the original items, the tape is recovered from the first m positions (injective).
func zzC15_Samples(n, m int, shuffle bool) {
	p, t := newTapePRG(m + 1)
	data := make([]int, n)
	for i := range data {
		data[i] = i
	}
	step := 0
	swap := func(i, j int) {
		verifAssert(i == step, "swap first index is the step")
		verifAssert(bAnd(j >= i, j < n), "swap second index in [i, n)")
		data[i], data[j] = data[j], data[i]
		step++
	}
	var err error
	if shuffle {
		err = p.Shuffle(n, swap)
	} else {
		err = p.Samples(n, m, swap)
	}
	if m < 0 || n < m || n < 0 {
		verifReach("rejected")
		verifAssert(err != nil, "invalid sizes rejected")
		verifAssert(bAnd(step == 0, t.reads == 0), "nothing done on rejection")
		return
	}
	verifAssert(err == nil, "no error")
	verifAssume(t.reads <= m)
	verifReach("Samples returned")
	verifAssert(step == m, "exactly m swaps")
	seen := make([]bool, n)
	for _, v := range data {
		verifAssert(bAnd(v >= 0, v < n), "data stays in range")
		verifAssert(!seen[v], "data is a permutation of the original items")
		seen[v] = true
	}
	// decode: replay the swaps backwards from the outcome's first m entries
	w := make([]int, n)
	for i := range w {
		w[i] = i
	}
	for i := 0; i < m; i++ {
		// position of data[i] in w (it is at index >= i)
		pos := -1
		for k := i; k < n; k++ {
			if w[k] == data[i] {
				pos = k
			}
		}
		verifAssert(pos >= i, "sampled element comes from the unsampled part")
		j := pos - i
		mask := uint64(0)
		mx := uint64(n - i - 1)
		for mx&mask != mx {
			mask = (mask << 1) | 1
		}
		verifAssert(uint64(j) == t.vals[i]&mask, "tape recovered from the ordered sample (injective)")
		w[i], w[pos] = w[pos], w[i]
	}
}

// zzC15_negative: negative sizes are errors for every negative value (symbolic).
func zzC15_negative() {
	p, t := newTapePRG(1)
	n := nondetInt()
	verifAssume(n < 0)
	items, err := p.Permutation(n)
	verifAssert(bAnd(err != nil, items == nil), "Permutation(negative) errors")
	k := nondetInt()
	verifAssume(k >= 0)
	verifAssume(k < 1000)
	_, err = p.SubPermutation(k, n)
	verifAssert(err != nil, "SubPermutation(_, negative) errors")
	err = p.Shuffle(n, func(i, j int) {})
	verifAssert(err != nil, "Shuffle(negative) errors")
	err = p.Samples(k, n, func(i, j int) {})
	verifAssert(err != nil, "Samples(_, negative) errors")
	m := nondetInt()
	verifAssume(m > k)
	err = p.Samples(k, m, func(i, j int) {})
	verifAssert(err != nil, "Samples(n, m > n) errors")
	_, err = p.SubPermutation(k, m)
	verifAssert(err != nil, "SubPermutation(n, m > n) errors")
	verifAssert(t.reads == 0, "no randomness consumed")
	verifReach("negative checked")
}
