//go:build verif_harness && cgo

package crypto

import (
	"runtime"
	"encoding/binary"

	"github.com/onflow/crypto/hash"
)

// nondetFr sets x to an arbitrary element of F_r (symbolically: a fresh generator of the
// polynomial domain; natively: 32 tape bytes reduced mod r).
func nondetFr(x *scalar) {
	var b [32]byte
	for i := 0; i < 4; i++ {
		binary.BigEndian.PutUint64(b[8*i:], nondetU64())
	}
	mapToFr(x, b[:])
}

// nondetFrStar: arbitrary non-zero element of F_r
func nondetFrStar(x *scalar) {
	nondetFr(x)
	verifAssume(!x.isZero())
}

func testHasher(tag string) hash.Hasher {
	return NewExpandMsgXOFKMAC128(tag)
}

// zzC01_sign_verify: for every non-zero private key and every message, Verify accepts Sign's output.
func zzC01_sign_verify(msgLen int) {
	var x scalar
	nondetFrStar(&x)
	sk := newPrKeyBLSBLS12381(&x)
	pk := sk.PublicKey()
	msg := nondetBytes(msgLen)
	h := testHasher("verif-tag")
	sig, err := sk.Sign(msg, h)
	verifAssert(err == nil, "Sign succeeds")
	verifAssert(len(sig) == SignatureLenBLSBLS12381, "signature is 48 bytes")
	ok, err := pk.Verify(sig, msg, h)
	verifAssert(err == nil, "Verify returns no error")
	verifAssert(ok, "Verify accepts the signature Sign produced")
	verifReach("sign_verify")
}

func decodeSigPoint(sig []byte) *pointE1 {
	var p pointE1
	if readPointE1(&p, sig) != nil {
		return nil
	}
	return &p
}

// arbHasher: a hasher whose every ComputeHash returns arbitrary 128 bytes with both 64-byte halves below p (any
// hasher with a 128-byte output is a valid BLS hasher); the outputs are recorded.
type arbHasher struct{ outs [][]byte }

func (a *arbHasher) Algorithm() hash.HashingAlgorithm { return hash.KMAC128 }
func (a *arbHasher) Size() int                        { return expandMsgOutput }
func (a *arbHasher) ComputeHash(d []byte) hash.Hash {
	o := nondetBytes(expandMsgOutput)
	// each 64-byte half is read as an integer and reduced mod p by hash-to-field: with the top 17 bytes of each half
	// zero the halves are below p, so that distinct outputs are distinct pairs of field elements
	for i := 0; i < 17; i++ {
		o[i], o[64+i] = 0, 0
	}
	a.outs = append(a.outs, o)
	return append([]byte{}, o...)
}
func (a *arbHasher) Write(p []byte) (int, error) { return len(p), nil }
func (a *arbHasher) SumHash() hash.Hash          { return a.ComputeHash(nil) }
func (a *arbHasher) Reset()                      {}

func sameBytes(a, b []byte) bool {
	eq := len(a) == len(b)
	for i := range a {
		if i < len(b) {
			eq = bAnd(eq, a[i] == b[i])
		}
	}
	return eq
}

// zzC01_arbhasher: consecutive calls with a hasher of arbitrary outputs h1 (Sign), h2, h3 (Verify): the signature is
// accepted exactly when the hasher output of that Verify call equals the one that was signed -- whatever was hashed in
// the calls before (no state is carried from one call to the next), for outputs that differ anywhere in the 128 bytes.
func zzC01_arbhasher() {
	if verifNative() {
		runtime.LockOSThread() // (consecutive cgo calls on one OS thread, as a single-threaded caller gets)
		defer runtime.UnlockOSThread()
	}
	var x scalar
	nondetFrStar(&x)
	sk := newPrKeyBLSBLS12381(&x)
	pk := sk.PublicKey()
	h := &arbHasher{}
	msg := nondetBytes(2)
	sig, err := sk.Sign(msg, h)
	verifAssert(err == nil, "Sign with a 128-byte hasher")
	ok2, err := pk.Verify(sig, msg, h)
	verifAssert(err == nil, "Verify with a 128-byte hasher")
	verifAssert(ok2 == sameBytes(h.outs[1], h.outs[0]), "Verify accepts exactly when this call's hasher output is the signed one")
	ok3, err := pk.Verify(sig, msg, h)
	verifAssert(err == nil, "Verify with a 128-byte hasher")
	verifAssert(ok3 == sameBytes(h.outs[2], h.outs[0]), "the verdict does not depend on what the previous call hashed")
	verifReach("arbitrary hasher")
}

// zzC01_candidates: the acceptance set of Verify. Candidates are a*H(m) + b*g1 (+ a point with a
// component outside G1): every point of E1 is of that form. Verify accepts exactly when the candidate
// is the group element sk*H(m) and lies in G1.
func zzC01_candidates(msgLen int, withTorsion bool) {
	var x, a, b scalar
	nondetFrStar(&x)
	nondetFr(&a)
	nondetFr(&b)
	sk := newPrKeyBLSBLS12381(&x)
	pk := sk.PublicKey()
	msg := nondetBytes(msgLen)
	h := testHasher("verif-tag")
	sig, _ := sk.Sign(msg, h)
	sigPt := decodeSigPoint(sig)
	verifAssert(sigPt != nil, "Sign output decodes")
	H := mapToG1(h.ComputeHash(msg))
	var aH, bG, cand pointE1
	H.scalarMultE1(&aH, &a)
	generatorScalarMultG1(&bG, &b)
	addE1(&cand, &aH, &bG)
	if withTorsion {
		var T pointE1
		unsafeMapToG1Complement(&T, []byte("verif-seed-for-a-point-outside-G1-0123456789abcdef0123456789abcdef0123456789abcdef0123456789abcdef0123456789"))
		addE1(&cand, &cand, &T)
	}
	cb := make([]byte, g1BytesLen)
	writePointE1(cb, &cand)
	ok, err := pk.Verify(cb, msg, h)
	verifAssert(err == nil, "Verify returns no error")
	same := cand.equals(sigPt)
	inG1 := checkMembershipG1(&cand)
	verifAssert(ok == bAnd(same, inG1), "Verify accepts exactly the group element sk*H(m) in G1")
	if withTorsion {
		verifAssert(!ok, "a point with a component outside G1 is never accepted")
	}
	verifReach("candidates")
}

// zzC01_raw: an arbitrary 48-byte string (or another length) as signature: accepted only if it decodes
// to the group element sk*H(m) in G1; wrong lengths are (false, nil).
func zzC01_raw(n int) {
	var x scalar
	nondetFrStar(&x)
	sk := newPrKeyBLSBLS12381(&x)
	pk := sk.PublicKey()
	msg := nondetBytes(2)
	h := testHasher("verif-tag")
	sig, _ := sk.Sign(msg, h)
	sigPt := decodeSigPoint(sig)
	raw := nondetBytes(n)
	ok, err := pk.Verify(raw, msg, h)
	verifAssert(err == nil, "Verify returns no error")
	if n != SignatureLenBLSBLS12381 {
		verifAssert(!ok, "wrong-length signatures are rejected")
		verifReach("raw wrong length")
		return
	}
	if ok {
		p := decodeSigPoint(raw)
		verifAssert(p != nil, "an accepted signature decodes")
		verifAssert(p.equals(sigPt), "an accepted signature is the group element sk*H(m)")
		verifAssert(checkMembershipG1(p), "an accepted signature is in G1")
		verifReach("raw accepted")
	} else {
		verifReach("raw rejected")
	}
}

// zzC01_appended: a valid signature followed by extra bytes (or cut short) is not accepted: only the one
// 48-byte string verifies.
func zzC01_appended(extra int) {
	var x scalar
	nondetFrStar(&x)
	sk := newPrKeyBLSBLS12381(&x)
	pk := sk.PublicKey()
	msg := nondetBytes(2)
	h := testHasher("verif-tag")
	sig, _ := sk.Sign(msg, h)
	var cand []byte
	if extra >= 0 {
		cand = append(append([]byte{}, sig...), nondetBytes(extra)...)
	} else {
		cand = sig[:len(sig)+extra]
	}
	ok, err := pk.Verify(cand, msg, h)
	verifAssert(err == nil, "Verify returns no error")
	verifAssert(ok == (extra == 0), "only the exact 48-byte signature verifies: trailing or missing bytes are rejected")
	verifReach("appended")
}

// zzC01_other: a signature does not verify for another message, under another key, or with a hasher
// for another domain tag; the identity signature and the identity key are rejected.
func zzC01_other(which int) {
	var x, y scalar
	nondetFrStar(&x)
	nondetFrStar(&y)
	sk := newPrKeyBLSBLS12381(&x)
	pk := sk.PublicKey()
	msg := nondetBytes(2)
	h := testHasher("verif-tag")
	sig, _ := sk.Sign(msg, h)
	switch which {
	case 0: // another message
		msg2 := nondetBytes(2)
		verifAssume(bOr(msg2[0] != msg[0], msg2[1] != msg[1]))
		ok, err := pk.Verify(sig, msg2, h)
		verifAssert(bAnd(!ok, err == nil), "another message is rejected")
	case 1: // another key
		verifAssume(!x.equals(&y))
		pk2 := newPrKeyBLSBLS12381(&y).PublicKey()
		ok, err := pk2.Verify(sig, msg, h)
		verifAssert(bAnd(!ok, err == nil), "another key is rejected")
	case 2: // another domain tag
		ok, err := pk.Verify(sig, msg, testHasher("verif-tag2"))
		verifAssert(bAnd(!ok, err == nil), "another domain tag is rejected")
	case 3: // identity signature
		ok, err := pk.Verify(g1Serialization, msg, h)
		verifAssert(bAnd(!ok, err == nil), "the identity signature is rejected")
	case 4: // identity public key, any signature
		ok, err := IdentityBLSPublicKey().Verify(sig, msg, h)
		verifAssert(bAnd(!ok, err == nil), "the identity key rejects a valid-looking signature")
		ok, err = IdentityBLSPublicKey().Verify(g1Serialization, msg, h)
		verifAssert(bAnd(!ok, err == nil), "the identity key rejects the identity signature")
		raw := nondetBytes(48)
		ok, err = IdentityBLSPublicKey().Verify(raw, msg, h)
		verifAssert(bAnd(!ok, err == nil), "the identity key rejects every string")
	case 7: // identity public keys however they are obtained: removal of all keys, decoding (cancelling aggregation: C02/C04)
		idRem, err := RemoveBLSPublicKeys(pk, []PublicKey{pk})
		verifAssert(err == nil, "RemoveBLSPublicKeys")
		idDec, err := DecodePublicKey(BLSBLS12381, IdentityBLSPublicKey().Encode())
		verifAssert(err == nil, "the identity key decodes")
		for _, idk := range []PublicKey{idRem, idDec} {
			verifAssert(idk.Equals(IdentityBLSPublicKey()), "it is the identity key")
			ok, err := idk.Verify(g1Serialization, msg, h)
			verifAssert(bAnd(!ok, err == nil), "an identity key (however obtained) rejects the identity signature")
			ok, err = idk.Verify(sig, msg, h)
			verifAssert(bAnd(!ok, err == nil), "an identity key (however obtained) rejects a valid-looking signature")
		}
	case 5: // hasher guards
		ok, err := pk.Verify(sig, msg, nil)
		verifAssert(bAnd(!ok, IsNilHasherError(err)), "nil hasher error")
		_, err = sk.Sign(msg, nil)
		verifAssert(IsNilHasherError(err), "nil hasher error on Sign")
		ok, err = pk.Verify(sig, msg, hash.NewSHA3_256())
		verifAssert(bAnd(!ok, IsInvalidHasherSizeError(err)), "wrong-size hasher error")
		_, err = sk.Sign(msg, hash.NewSHA3_384())
		verifAssert(IsInvalidHasherSizeError(err), "wrong-size hasher error on Sign")
	case 6: // negated signature
		p := decodeSigPoint(sig)
		var np pointE1
		var minusOne scalar
		nb := blsOrderBE
		nb[31] = 0 // r - 1
		verifAssert(readScalarFrStar(&minusOne, nb[:]) == nil, "r-1 is a valid scalar")
		p.scalarMultE1(&np, &minusOne)
		cb := make([]byte, g1BytesLen)
		writePointE1(cb, &np)
		ok, err := pk.Verify(cb, msg, h)
		verifAssert(bAnd(!ok, err == nil), "the negated signature is rejected")
	}
	verifReach("other")
}

// ---------------------------------------------------------------------------------------------
// a PublicKey / PrivateKey that is not a BLS key (for the not-a-BLS-key error paths)

type fakeKey struct{}

func (fakeKey) Algorithm() SigningAlgorithm { return ECDSAP256 }
func (fakeKey) Size() int                   { return 0 }
func (fakeKey) String() string              { return "fake" }
func (fakeKey) Encode() []byte              { return nil }
func (fakeKey) EncodeCompressed() []byte    { return nil }
func (fakeKey) Equals(PublicKey) bool       { return false }
func (fakeKey) Verify(Signature, []byte, hash.Hasher) (bool, error) {
	return false, nil
}

type fakePrKey struct{}

func (fakePrKey) Algorithm() SigningAlgorithm { return ECDSAP256 }
func (fakePrKey) Size() int                   { return 0 }
func (fakePrKey) String() string              { return "fake" }
func (fakePrKey) Encode() []byte              { return nil }
func (fakePrKey) Equals(PrivateKey) bool      { return false }
func (fakePrKey) PublicKey() PublicKey        { return fakeKey{} }
func (fakePrKey) Sign([]byte, hash.Hasher) (Signature, error) {
	return nil, nil
}

func g1PointBytes(c *scalar, withTorsion bool) ([]byte, *pointE1) {
	var p pointE1
	generatorScalarMultG1(&p, c)
	if withTorsion {
		var T pointE1
		unsafeMapToG1Complement(&T, []byte("verif-seed-for-a-point-outside-G1-0123456789abcdef0123456789abcdef0123456789abcdef0123456789abcdef0123456789"))
		addE1(&p, &p, &T)
	}
	b := make([]byte, g1BytesLen)
	writePointE1(b, &p)
	return b, &p
}

// zzC17_cancelling_torsion: two proofs that are both outside G1 but whose parts outside G1 cancel
// (c1*g1 + T and c2*g1 - T): each proof must be checked on its own, so the pair is rejected for all keys and scalars
func zzC17_cancelling_torsion() {
	var x1, x2, c1, c2 scalar
	nondetFrStar(&x1)
	nondetFrStar(&x2)
	nondetFr(&c1)
	nondetFr(&c2)
	pk1 := newPrKeyBLSBLS12381(&x1).PublicKey()
	pk2 := newPrKeyBLSBLS12381(&x2).PublicKey()
	p1, _ := g1PointBytes(&c1, true) // c1*g1 + T
	m, _ := g1PointBytes(&c2, true)  // c2*g1 + T ...
	p2 := append([]byte{}, m...)
	p2[0] ^= 0x20 // ... negated through the sort bit of the compressed encoding: -c2*g1 - T
	ok, err := SPOCKVerify(pk1, p1, pk2, p2)
	verifAssert(bAnd(!ok, err == nil), "proofs outside G1 are rejected also when their parts outside G1 cancel in the sum")
	ok, err = SPOCKVerify(pk2, p2, pk1, p1)
	verifAssert(bAnd(!ok, err == nil), "in either order")
	verifReach("spock cancelling torsion")
}

// zzC17_relation: SPOCKVerify(pk1, c1*g1 [+T], pk2, c2*g1 [+T]) is true exactly when both proofs are in G1
// and c1*sk2 = c2*sk1; the verdict is symmetric in the two pairs.
func zzC17_relation(tor1, tor2 bool) {
	var x1, x2, c1, c2 scalar
	nondetFrStar(&x1)
	nondetFrStar(&x2)
	nondetFr(&c1)
	nondetFr(&c2)
	pk1 := newPrKeyBLSBLS12381(&x1).PublicKey()
	pk2 := newPrKeyBLSBLS12381(&x2).PublicKey()
	p1, _ := g1PointBytes(&c1, tor1)
	p2, _ := g1PointBytes(&c2, tor2)
	ok, err := SPOCKVerify(pk1, p1, pk2, p2)
	verifAssert(err == nil, "no error for BLS keys")
	var l, r scalar
	multFr(&l, &c1, &x2)
	multFr(&r, &c2, &x1)
	rel := l.equals(&r)
	want := bAnd(rel, bAnd(!tor1, !tor2))
	verifAssert(ok == want, "SPOCKVerify holds exactly when both proofs are in G1 and e(p1,pk2) = e(p2,pk1)")
	ok2, err := SPOCKVerify(pk2, p2, pk1, p1)
	verifAssert(bAnd(err == nil, ok2 == ok), "the verdict is unchanged when the two pairs are swapped")
	verifReach("spock relation")
}

// zzC17_honest: proofs made by SPOCKProve over the same data verify; over different data they do not;
// attributed to another key they do not; identity keys, wrong lengths and non-BLS keys.
func zzC17_honest(which int) {
	var x1, x2, x3 scalar
	nondetFrStar(&x1)
	nondetFrStar(&x2)
	nondetFrStar(&x3)
	sk1, sk2 := newPrKeyBLSBLS12381(&x1), newPrKeyBLSBLS12381(&x2)
	pk1, pk2 := sk1.PublicKey(), sk2.PublicKey()
	data := nondetBytes(2)
	h := testHasher("spock-tag")
	p1, err := SPOCKProve(sk1, data, h)
	verifAssert(err == nil, "SPOCKProve")
	p2, _ := SPOCKProve(sk2, data, h)
	s1, _ := sk1.Sign(data, h)
	assertEqBytes(p1, s1, "SPOCKProve coincides with Sign")
	switch which {
	case 0:
		ok, err := SPOCKVerify(pk1, p1, pk2, p2)
		verifAssert(bAnd(ok, err == nil), "two proofs over the same data verify")
		ok, err = SPOCKVerifyAgainstData(pk1, p1, data, h)
		v, _ := pk1.Verify(p1, data, h)
		verifAssert(bAnd(ok == v, err == nil), "SPOCKVerifyAgainstData coincides with Verify")
		verifAssert(ok, "and accepts the proof")
	case 1:
		data2 := nondetBytes(2)
		verifAssume(bOr(data2[0] != data[0], data2[1] != data[1]))
		q2, _ := SPOCKProve(sk2, data2, h)
		ok, err := SPOCKVerify(pk1, p1, pk2, q2)
		verifAssert(bAnd(!ok, err == nil), "proofs over different data do not verify")
	case 2:
		verifAssume(!x3.equals(&x2))
		pk3 := newPrKeyBLSBLS12381(&x3).PublicKey()
		ok, err := SPOCKVerify(pk1, p1, pk3, p2)
		verifAssert(bAnd(!ok, err == nil), "a proof attributed to another key does not verify")
	case 3:
		ok, err := SPOCKVerify(IdentityBLSPublicKey(), p1, pk2, p2)
		verifAssert(bAnd(!ok, err == nil), "identity key 1 is rejected")
		ok, err = SPOCKVerify(pk1, p1, IdentityBLSPublicKey(), p2)
		verifAssert(bAnd(!ok, err == nil), "identity key 2 is rejected")
		ok, err = SPOCKVerify(IdentityBLSPublicKey(), g1Serialization, IdentityBLSPublicKey(), g1Serialization)
		verifAssert(bAnd(!ok, err == nil), "identity keys with identity proofs are rejected")
		// identity keys with arbitrary proofs (also when both keys are the identity, where the pairing relation
		// alone would hold trivially), identity keys obtained by decoding
		idDec, derr := DecodePublicKey(BLSBLS12381, IdentityBLSPublicKey().Encode())
		verifAssert(derr == nil, "the identity key decodes")
		ok, err = SPOCKVerify(IdentityBLSPublicKey(), p1, idDec, p2)
		verifAssert(bAnd(!ok, err == nil), "two identity keys are rejected whatever the proofs")
		ok, err = SPOCKVerify(idDec, p1, IdentityBLSPublicKey(), g1Serialization)
		verifAssert(bAnd(!ok, err == nil), "two identity keys are rejected with one identity proof")
		ok, err = SPOCKVerify(IdentityBLSPublicKey(), g1Serialization, pk2, p2)
		verifAssert(bAnd(!ok, err == nil), "an identity key with the identity proof is rejected next to an honest pair")
		ok, err = SPOCKVerify(pk1, g1Serialization, pk2, g1Serialization)
		verifAssert(bAnd(ok, err == nil), "two identity proofs satisfy the pairing relation (consistent with the exactly-when of the property)")
	case 4:
		ok, err := SPOCKVerify(pk1, p1[:47], pk2, p2)
		verifAssert(bAnd(!ok, err == nil), "short proof 1 is rejected")
		ok, err = SPOCKVerify(pk1, p1, pk2, append(p2, 0))
		verifAssert(bAnd(!ok, err == nil), "long proof 2 is rejected")
		ok, err = SPOCKVerify(pk1, []byte{}, pk2, p2)
		verifAssert(bAnd(!ok, err == nil), "empty proof is rejected")
	case 5:
		ok, err := SPOCKVerify(fakeKey{}, p1, pk2, p2)
		verifAssert(bAnd(!ok, IsNotBLSKeyError(err)), "non-BLS key 1")
		ok, err = SPOCKVerify(pk1, p1, fakeKey{}, p2)
		verifAssert(bAnd(!ok, IsNotBLSKeyError(err)), "non-BLS key 2")
		_, err = SPOCKProve(fakePrKey{}, data, h)
		verifAssert(IsNotBLSKeyError(err), "non-BLS private key")
		ok, err = SPOCKVerifyAgainstData(fakeKey{}, p1, data, h)
		verifAssert(bAnd(!ok, IsNotBLSKeyError(err)), "non-BLS key against data")
	case 6:
		raw1 := nondetBytes(48)
		raw2 := nondetBytes(48)
		ok, err := SPOCKVerify(pk1, raw1, pk2, raw2)
		verifAssert(err == nil, "no error on arbitrary strings")
		if ok {
			a, b := decodeSigPoint(raw1), decodeSigPoint(raw2)
			verifAssert(bAnd(a != nil, b != nil), "accepted proofs decode")
			if a != nil && b != nil {
				verifAssert(bAnd(checkMembershipG1(a), checkMembershipG1(b)), "accepted proofs are in G1")
			}
			verifReach("spock raw accepted")
		}
	}
	verifReach("spock honest")
}

// ---------------------------------------------------------------------------------------------
// C16: proofs of possession

func zzC16_pop(which int, tagLen int) {
	var x, y scalar
	nondetFrStar(&x)
	nondetFrStar(&y)
	sk := newPrKeyBLSBLS12381(&x)
	pk := sk.PublicKey()
	pop, err := BLSGeneratePOP(sk)
	verifAssert(err == nil, "BLSGeneratePOP")
	switch which {
	case 0:
		ok, err := BLSVerifyPOP(pk, pop)
		verifAssert(bAnd(ok, err == nil), "the PoP verifies under its own key")
		s, _ := sk.Sign(pk.Encode(), popKMAC)
		assertEqBytes(pop, s, "the PoP is the signature of the encoded public key under the PoP ciphersuite")
	case 1:
		verifAssume(!x.equals(&y))
		pk2 := newPrKeyBLSBLS12381(&y).PublicKey()
		ok, err := BLSVerifyPOP(pk2, pop)
		verifAssert(bAnd(!ok, err == nil), "the PoP does not verify under another key")
	case 2:
		ok, err := BLSVerifyPOP(IdentityBLSPublicKey(), pop)
		verifAssert(bAnd(!ok, err == nil), "never under the identity key")
		ok, err = BLSVerifyPOP(IdentityBLSPublicKey(), g1Serialization)
		verifAssert(bAnd(!ok, err == nil), "identity PoP under the identity key")
	case 3:
		// every application tag of length tagLen (symbolic contents): a signature of the public key bytes
		// under that tag is not a PoP, and the PoP is not a signature under that tag
		tag := string(nondetBytes(tagLen))
		h := NewExpandMsgXOFKMAC128(tag)
		s, _ := sk.Sign(pk.Encode(), h)
		ok, err := BLSVerifyPOP(pk, s)
		verifAssert(bAnd(!ok, err == nil), "a signature of the public key bytes under an application tag is not a PoP")
		ok, err = pk.Verify(pop, pk.Encode(), h)
		verifAssert(bAnd(!ok, err == nil), "a PoP is not a signature under an application tag")
	case 4:
		_, err := BLSGeneratePOP(fakePrKey{})
		verifAssert(IsNotBLSKeyError(err), "non-BLS private key")
		ok, err := BLSVerifyPOP(fakeKey{}, pop)
		verifAssert(bAnd(!ok, IsNotBLSKeyError(err)), "non-BLS public key")
	case 5:
		// candidate PoP strings: c*g1: accepted only if it is the PoP group element
		var c scalar
		nondetFr(&c)
		cb, cp := g1PointBytes(&c, false)
		ok, err := BLSVerifyPOP(pk, cb)
		verifAssert(err == nil, "no error")
		verifAssert(ok == cp.equals(decodeSigPoint(pop)), "BLSVerifyPOP accepts exactly the PoP group element")
	case 6:
		// public key objects obtained by aggregation and removal rather than from a private key or a decoder
		verifAssume(!x.equals(&y))
		pk2 := newPrKeyBLSBLS12381(&y).PublicKey()
		agg, err := AggregateBLSPublicKeys([]PublicKey{pk, pk2})
		verifAssert(err == nil, "aggregation")
		back, err := RemoveBLSPublicKeys(agg, []PublicKey{pk2})
		verifAssert(err == nil, "removal")
		ok, err := BLSVerifyPOP(back, pop)
		verifAssert(bAnd(ok, err == nil), "the PoP verifies under the same key obtained by aggregation and removal")
		idk, err := RemoveBLSPublicKeys(agg, []PublicKey{pk, pk2})
		verifAssert(err == nil, "removal of all keys")
		ok, err = BLSVerifyPOP(idk, pop)
		verifAssert(bAnd(!ok, err == nil), "never under an identity key obtained by removing all keys")
		ok, err = BLSVerifyPOP(idk, g1Serialization)
		verifAssert(bAnd(!ok, err == nil), "the identity PoP is rejected under an identity key obtained by removing all keys")
	case 8:
		// a key decoded from a buffer that the caller reuses afterwards (e.g. reading several keys through one buffer)
		buf := pk.Encode()
		dec, err := DecodePublicKey(BLSBLS12381, buf)
		verifAssert(err == nil, "the encoded key decodes")
		other := newPrKeyBLSBLS12381(&y).PublicKey().Encode()
		copy(buf, other)
		ok, err := BLSVerifyPOP(dec, pop)
		verifAssert(bAnd(ok, err == nil), "the PoP verifies under the decoded key after the caller reused the decoding buffer")
		assertEqBytes(dec.Encode(), pk.Encode(), "the decoded key keeps its encoding")
	case 7:
		// y = -x: the aggregate is the identity key; removing pk(y) from the identity key gives pk(x)
		sum, _ := AggregateBLSPrivateKeys([]PrivateKey{sk, newPrKeyBLSBLS12381(&y)})
		verifAssume(sum.(*prKeyBLSBLS12381).scalar.isZero())
		pk2 := newPrKeyBLSBLS12381(&y).PublicKey()
		agg, err := AggregateBLSPublicKeys([]PublicKey{pk, pk2})
		verifAssert(err == nil, "aggregation")
		ok, err := BLSVerifyPOP(agg, g1Serialization)
		verifAssert(bAnd(!ok, err == nil), "the identity PoP is rejected under an identity key obtained by aggregating cancelling keys")
		back, err := RemoveBLSPublicKeys(IdentityBLSPublicKey(), []PublicKey{pk2})
		verifAssert(err == nil, "removal from the identity key")
		ok, err = BLSVerifyPOP(back, pop)
		verifAssert(bAnd(ok, err == nil), "the PoP verifies under the same key obtained by removal from the identity key")
	}
	verifReach("pop")
}

// zzC04_wide: long lists (beyond any fixed-size internal buffer one might introduce): the aggregate of n signatures
// c_i*g1 is (sum c_i)*g1, and the aggregate of n public keys c_i*g2 is (sum c_i)*g2; removing all but the first
// key from the aggregate gives the first key back.
func zzC04_wide(n, k int) {
	sks := make([]PrivateKey, n)
	pks := make([]PublicKey, n)
	sigs := make([]Signature, n)
	// (k = 1 or 2 symbolic scalars used alternately: the defects in question depend on the length of the list, not on
	// having n independent values)
	var cs [2]scalar
	nondetFrStar(&cs[0])
	nondetFrStar(&cs[1])
	for i := 0; i < n; i++ {
		c := cs[i%k]
		sk := newPrKeyBLSBLS12381(&c)
		sks[i] = sk
		pks[i] = sk.PublicKey()
		sigs[i], _ = g1PointBytes(&c, false)
	}
	sum, err := AggregateBLSPrivateKeys(sks)
	verifAssert(err == nil, "AggregateBLSPrivateKeys")
	var e pointE1
	generatorScalarMultG1(&e, &sum.(*prKeyBLSBLS12381).scalar)
	want := make([]byte, g1BytesLen)
	writePointE1(want, &e)
	agg, err := AggregateBLSSignatures(sigs)
	verifAssert(err == nil, "AggregateBLSSignatures")
	assertEqBytes(agg, want, "aggregate of n signatures c_i*g1 = (sum c_i)*g1 (long list)")
	aggPk, err := AggregateBLSPublicKeys(pks)
	verifAssert(err == nil, "AggregateBLSPublicKeys")
	verifAssert(aggPk.Equals(sum.PublicKey()), "aggregate of n public keys = public key of the aggregated private key (long list)")
	back, err := RemoveBLSPublicKeys(aggPk, pks[1:])
	verifAssert(err == nil, "RemoveBLSPublicKeys")
	verifAssert(back.Equals(pks[0]), "removing all keys but the first gives the first key (long list)")
	verifReach("wide aggregation")
}

// ---------------------------------------------------------------------------------------------
// C04: aggregation homomorphisms

func zzC04_aggregate(n int, pattern int) {
	// pattern bit i set: key i equals key 0 (duplicates); pattern == -1: keys sum to zero (last = -(sum of others))
	xs := make([]scalar, n)
	sks := make([]PrivateKey, n)
	pks := make([]PublicKey, n)
	for i := 0; i < n; i++ {
		nondetFrStar(&xs[i])
		if pattern > 0 && i > 0 && (pattern>>uint(i))&1 == 1 {
			xs[i] = xs[0]
		}
		sks[i] = newPrKeyBLSBLS12381(&xs[i])
		pks[i] = sks[i].PublicKey()
	}
	msg := nondetBytes(2)
	h := testHasher("agg-tag")
	sigs := make([]Signature, n)
	for i := 0; i < n; i++ {
		sigs[i], _ = sks[i].Sign(msg, h)
	}
	aggSk, err := AggregateBLSPrivateKeys(sks)
	verifAssert(err == nil, "AggregateBLSPrivateKeys")
	aggPk, err := AggregateBLSPublicKeys(pks)
	verifAssert(err == nil, "AggregateBLSPublicKeys")
	aggSig, err := AggregateBLSSignatures(sigs)
	verifAssert(err == nil, "AggregateBLSSignatures")
	verifAssert(aggSk.PublicKey().Equals(aggPk), "public key of the aggregated private key = aggregate of the public keys")
	assertEqBytes(aggSk.PublicKey().Encode(), aggPk.Encode(), "same encoding")
	s2, _ := aggSk.Sign(msg, h)
	assertEqBytes(aggSig, s2, "aggregate of the signatures = signature by the aggregated private key")
	// the result does not depend on hidden state of the inputs: private key objects whose public key was / was
	// not computed before (none, only the last, only the first)
	for mode := 0; mode < 3; mode++ {
		fresh := make([]PrivateKey, n)
		for i := 0; i < n; i++ {
			xi := xs[i]
			fresh[i] = newPrKeyBLSBLS12381(&xi)
		}
		if mode == 1 {
			_ = fresh[n-1].PublicKey()
		} else if mode == 2 {
			_ = fresh[0].PublicKey()
		}
		a3, err := AggregateBLSPrivateKeys(fresh)
		verifAssert(err == nil, "AggregateBLSPrivateKeys on fresh key objects")
		verifAssert(a3.Equals(aggSk), "same aggregated private key whatever was cached in the inputs")
		verifAssert(a3.PublicKey().Equals(aggPk), "public key of the aggregated private key = aggregate of the public keys, whatever was cached in the inputs")
	}
	// order independence (reverse) and nesting (aggregate of aggregates)
	rs := make([]Signature, n)
	rp := make([]PublicKey, n)
	for i := 0; i < n; i++ {
		rs[i], rp[i] = sigs[n-1-i], pks[n-1-i]
	}
	a2, _ := AggregateBLSSignatures(rs)
	assertEqBytes(a2, aggSig, "signature aggregation is order independent")
	p2, _ := AggregateBLSPublicKeys(rp)
	verifAssert(p2.Equals(aggPk), "key aggregation is order independent")
	if n >= 2 {
		left, _ := AggregateBLSSignatures(sigs[:1])
		right, _ := AggregateBLSSignatures(sigs[1:])
		nested, _ := AggregateBLSSignatures([]Signature{left, right})
		assertEqBytes(nested, aggSig, "nested aggregation gives the same signature")
		lp, _ := AggregateBLSPublicKeys(pks[:1])
		rpk, _ := AggregateBLSPublicKeys(pks[1:])
		np, _ := AggregateBLSPublicKeys([]PublicKey{lp, rpk})
		verifAssert(np.Equals(aggPk), "nested key aggregation gives the same key")
		// removal
		rem, err := RemoveBLSPublicKeys(aggPk, pks[1:])
		verifAssert(err == nil, "RemoveBLSPublicKeys")
		verifAssert(rem.Equals(pks[0]), "Remove(Aggregate(A+B), B) = Aggregate(A)")
		// results of a removal (and threshold / DKG key shares) are keys like any other: aggregating them again
		// follows the same homomorphism, whatever internal representation the removal left them in
		var xd scalar
		nondetFrStar(&xd)
		skd := newPrKeyBLSBLS12381(&xd)
		reagg, err := AggregateBLSPublicKeys([]PublicKey{rem, skd.PublicKey()})
		verifAssert(err == nil, "AggregateBLSPublicKeys on the result of a removal")
		direct, _ := AggregateBLSPublicKeys([]PublicKey{pks[0], skd.PublicKey()})
		verifAssert(reagg.Equals(direct), "Aggregate(Remove(Aggregate(A+B), B), d) = Aggregate(A, d)")
		assertEqBytes(reagg.Encode(), direct.Encode(), "with the same encoding")
		back, _ := RemoveBLSPublicKeys(reagg, []PublicKey{skd.PublicKey()})
		verifAssert(back.Equals(pks[0]), "and removing d again gives A")
		// chained removals: the result of a removal is itself a valid aggregated key to remove from
		withD, _ := AggregateBLSPublicKeys(append(append([]PublicKey{}, pks...), skd.PublicKey()))
		step1, err := RemoveBLSPublicKeys(withD, []PublicKey{skd.PublicKey()})
		verifAssert(bAnd(err == nil, step1.Equals(aggPk)), "Remove(Aggregate(A+B+d), d) = Aggregate(A+B)")
		step2, err := RemoveBLSPublicKeys(step1, pks[1:])
		verifAssert(bAnd(err == nil, step2.Equals(pks[0])), "Remove(Remove(Aggregate(A+B+d), d), B) = Aggregate(A)")
		assertEqBytes(step2.Encode(), pks[0].Encode(), "with the same encoding")
		step3, err := RemoveBLSPublicKeys(step2, pks[:1])
		verifAssert(bAnd(err == nil, step3.Equals(IdentityBLSPublicKey())), "removing everything in several steps gives the identity key")
		verifAssert(step3.(*pubKeyBLSBLS12381).isIdentity, "with the identity flag set")
		all, _ := RemoveBLSPublicKeys(aggPk, pks)
		verifAssert(all.Equals(IdentityBLSPublicKey()), "removing all keys gives the identity key")
		verifAssert(all.(*pubKeyBLSBLS12381).isIdentity, "identity flag is recomputed")
	}
	ok, _ := aggPk.Verify(aggSig, msg, h)
	verifAssert(ok == !aggPk.(*pubKeyBLSBLS12381).isIdentity, "the aggregate verifies unless the aggregated key is the identity")
	verifAssert(IsBLSSignatureIdentity(aggSig) == aggSk.(*prKeyBLSBLS12381).scalar.isZero(), "identity signature iff the keys sum to zero")
	verifReach("aggregate")
}

func zzC04_errors() {
	_, err := AggregateBLSSignatures(nil)
	verifAssert(IsBLSAggregateEmptyListError(err), "empty signature list")
	_, err = AggregateBLSPrivateKeys(nil)
	verifAssert(IsBLSAggregateEmptyListError(err), "empty private key list")
	_, err = AggregateBLSPublicKeys([]PublicKey{})
	verifAssert(IsBLSAggregateEmptyListError(err), "empty public key list")
	_, err = AggregateBLSPrivateKeys([]PrivateKey{fakePrKey{}})
	verifAssert(IsNotBLSKeyError(err), "non-BLS private key")
	_, err = AggregateBLSPublicKeys([]PublicKey{fakeKey{}})
	verifAssert(IsNotBLSKeyError(err), "non-BLS public key")
	_, err = RemoveBLSPublicKeys(fakeKey{}, nil)
	verifAssert(IsNotBLSKeyError(err), "non-BLS aggregated key")
	_, err = RemoveBLSPublicKeys(IdentityBLSPublicKey(), []PublicKey{fakeKey{}})
	verifAssert(IsNotBLSKeyError(err), "non-BLS key to remove")
	same, err := RemoveBLSPublicKeys(IdentityBLSPublicKey(), nil)
	verifAssert(bAnd(err == nil, same.Equals(IdentityBLSPublicKey())), "removing nothing")
	_, err = AggregateBLSSignatures([]Signature{make([]byte, 47)})
	verifAssert(IsInvalidSignatureError(err), "short signature")
	_, err = AggregateBLSSignatures([]Signature{BLSInvalidSignature()})
	verifAssert(IsInvalidSignatureError(err), "malformed signature")
	raw := nondetBytes(48)
	agg, err := AggregateBLSSignatures([]Signature{raw})
	if err != nil {
		verifAssert(IsInvalidSignatureError(err), "undecodable signature gives the invalid-signature error")
	} else {
		assertEqBytes(agg, raw, "the aggregate of one decodable signature is itself (canonical)")
	}
	verifAssert(IsBLSSignatureIdentity(g1Serialization), "identity signature constant")
	verifAssert(IdentityBLSPublicKey().(*pubKeyBLSBLS12381).isIdentity, "identity key constant")
	verifReach("aggregate errors")
}

// ---------------------------------------------------------------------------------------------
// C02: aggregate verification

func digit(v, i, base int) int {
	for k := 0; k < i; k++ {
		v /= base
	}
	return v % base
}

// zzC02_many: n triples; keyPat / msgPat give (base n) the key id and message id of each position;
// the candidate is the honest aggregate plus delta*g1. The verdict is true exactly when delta = 0,
// for every iteration order of the internal maps and whichever grouping is selected.
func zzC02_many(n, keyPat, msgPat int, twoTags bool) { zzC02_manyImpl(n, keyPat, msgPat, twoTags, 0) }

// zzC02_many_derived: the same with the key objects of the positions in `mask` obtained by aggregation and removal
// (pk + extra - extra: the same point held in an object whose point is not in affine form)
func zzC02_many_derived(n, keyPat, msgPat, mask int) { zzC02_manyImpl(n, keyPat, msgPat, false, mask) }

func zzC02_manyImpl(n, keyPat, msgPat int, twoTags bool, derivedMask int) {
	var extra scalar
	nondetFrStar(&extra)
	extraPk := newPrKeyBLSBLS12381(&extra).PublicKey()
	xs := make([]scalar, n)
	msgs := make([][]byte, n)
	for i := 0; i < n; i++ {
		nondetFrStar(&xs[i])
		msgs[i] = []byte{byte(i), nondetByte()} // distinct ids give distinct messages
	}
	h1, h2 := testHasher("many-tag"), testHasher("many-tag")
	if twoTags {
		h2 = testHasher("many-tag-2")
	}
	pks := make([]PublicKey, n)
	ms := make([][]byte, n)
	hs := make([]hash.Hasher, n)
	sigs := make([]Signature, n)
	for i := 0; i < n; i++ {
		k, m := digit(keyPat, i, n), digit(msgPat, i, n)
		sk := newPrKeyBLSBLS12381(&xs[k]) // a fresh key object per position (equal points in distinct objects)
		pks[i] = sk.PublicKey()
		if (derivedMask>>uint(i))&1 == 1 {
			both, err := AggregateBLSPublicKeys([]PublicKey{pks[i], extraPk})
			verifAssert(err == nil, "aggregation of public keys")
			pks[i], err = RemoveBLSPublicKeys(both, []PublicKey{extraPk})
			verifAssert(err == nil, "removal")
		}
		ms[i] = msgs[m]
		hs[i] = h1
		if i%2 == 1 {
			hs[i] = h2
		}
		sigs[i], _ = sk.Sign(ms[i], hs[i])
	}
	agg, err := AggregateBLSSignatures(sigs)
	verifAssert(err == nil, "aggregation")
	var delta scalar
	nondetFr(&delta)
	var dG, cand pointE1
	generatorScalarMultG1(&dG, &delta)
	addE1(&cand, decodeSigPoint(agg), &dG)
	cb := make([]byte, g1BytesLen)
	writePointE1(cb, &cand)
	ok, err := VerifyBLSSignatureManyMessages(pks, cb, ms, hs)
	verifAssert(err == nil, "no error for well-formed inputs")
	verifAssert(ok == delta.isZero(), "ManyMessages accepts exactly the aggregate of the individual signatures")
	// one-message API agrees when all messages and hashers coincide
	if msgPat == 0 && !twoTags {
		ok1, err := VerifyBLSSignatureOneMessage(pks, cb, ms[0], h1)
		verifAssert(err == nil, "OneMessage returns no error")
		aggPk, _ := AggregateBLSPublicKeys(pks)
		ok2, _ := aggPk.Verify(cb, ms[0], h1)
		verifAssert(ok2 == ok1, "OneMessage = Verify under the aggregated key")
		// the two APIs agree unless the keys cancel (the aggregated key is then the identity, which Verify rejects)
		verifAssert(bOr(aggPk.(*pubKeyBLSBLS12381).isIdentity, ok1 == ok), "OneMessage agrees with ManyMessages when the aggregated key is not the identity")
	}
	verifReach("many messages")
}

// zzC02_wide: sizes that cross the internal batching boundaries (multi-pairing batches of 8, per-key hash groups):
// shape 0: ONE key signs m distinct messages (one group of m hashes on the per-distinct-key path);
// shape 1: m distinct keys sign ONE message (one group of m keys on the per-distinct-message path);
// shape 2: m distinct keys sign m distinct messages (m pairs, tie between the two paths).
// The candidate is the aggregate + delta*g1: accepted exactly when delta = 0.
func zzC02_wide(m, shape int) {
	h := testHasher("many-tag")
	var x0 scalar
	nondetFrStar(&x0)
	pks := make([]PublicKey, m)
	ms := make([][]byte, m)
	hs := make([]hash.Hasher, m)
	sigs := make([]Signature, m)
	b := nondetByte()
	for i := 0; i < m; i++ {
		xi := x0
		if shape != 0 {
			nondetFrStar(&xi)
		}
		sk := newPrKeyBLSBLS12381(&xi)
		pks[i] = sk.PublicKey()
		if shape == 1 {
			ms[i] = []byte{0, 0, b}
		} else {
			ms[i] = []byte{byte(i), byte(i >> 8), b}
		}
		hs[i] = h
		sigs[i], _ = sk.Sign(ms[i], h)
	}
	agg, err := AggregateBLSSignatures(sigs)
	verifAssert(err == nil, "aggregation")
	var delta scalar
	nondetFr(&delta)
	var dG, cand pointE1
	generatorScalarMultG1(&dG, &delta)
	addE1(&cand, decodeSigPoint(agg), &dG)
	cb := make([]byte, g1BytesLen)
	writePointE1(cb, &cand)
	ok, err := VerifyBLSSignatureManyMessages(pks, cb, ms, hs)
	verifAssert(err == nil, "no error for well-formed inputs")
	verifAssert(ok == delta.isZero(), "ManyMessages accepts exactly the aggregate of the individual signatures (wide input)")
	verifReach("many messages wide")
}

// zzC02_cancel: keys x and -x on one message: the keys cancel, the aggregate is the identity signature;
// the verdict is still given by the pairing-product definition (no key is the identity).
func zzC02_cancel() {
	var x, y scalar
	nondetFrStar(&x)
	nondetFrStar(&y)
	sum, _ := AggregateBLSPrivateKeys([]PrivateKey{newPrKeyBLSBLS12381(&x), newPrKeyBLSBLS12381(&y)})
	verifAssume(sum.(*prKeyBLSBLS12381).scalar.isZero()) // y = -x
	msg := nondetBytes(2)
	h := testHasher("many-tag")
	pks := []PublicKey{newPrKeyBLSBLS12381(&x).PublicKey(), newPrKeyBLSBLS12381(&y).PublicKey()}
	ok, err := VerifyBLSSignatureManyMessages(pks, g1Serialization, [][]byte{msg, msg}, []hash.Hasher{h, h})
	verifAssert(bAnd(ok, err == nil), "cancelling keys on one message: the identity signature satisfies the pairing product")
	var d scalar
	nondetFrStar(&d)
	cb, _ := g1PointBytes(&d, false)
	ok, err = VerifyBLSSignatureManyMessages(pks, cb, [][]byte{msg, msg}, []hash.Hasher{h, h})
	verifAssert(bAnd(!ok, err == nil), "and nothing else does")
	ok, _ = VerifyBLSSignatureOneMessage(pks, g1Serialization, msg, h)
	verifAssert(!ok, "OneMessage = Verify under the sum, which is the identity key: false")
	verifReach("cancel")
}

func zzC02_errors() {
	var x scalar
	nondetFrStar(&x)
	pk := newPrKeyBLSBLS12381(&x).PublicKey()
	msg := nondetBytes(2)
	h := testHasher("many-tag")
	sig, _ := newPrKeyBLSBLS12381(&x).Sign(msg, h)
	ok, err := VerifyBLSSignatureManyMessages([]PublicKey{}, sig, [][]byte{}, []hash.Hasher{})
	verifAssert(bAnd(!ok, IsBLSAggregateEmptyListError(err)), "empty lists")
	ok, err = VerifyBLSSignatureManyMessages([]PublicKey{pk}, sig, [][]byte{msg, msg}, []hash.Hasher{h})
	verifAssert(bAnd(!ok, IsInvalidInputsError(err)), "mismatched messages")
	ok, err = VerifyBLSSignatureManyMessages([]PublicKey{pk}, sig, [][]byte{msg}, []hash.Hasher{h, h})
	verifAssert(bAnd(!ok, IsInvalidInputsError(err)), "mismatched hashers")
	ok, err = VerifyBLSSignatureManyMessages([]PublicKey{pk}, sig, [][]byte{msg}, []hash.Hasher{nil})
	verifAssert(bAnd(!ok, IsNilHasherError(err)), "nil hasher")
	ok, err = VerifyBLSSignatureManyMessages([]PublicKey{pk}, sig, [][]byte{msg}, []hash.Hasher{hash.NewSHA3_256()})
	verifAssert(bAnd(!ok, IsInvalidHasherSizeError(err)), "wrong-size hasher")
	ok, err = VerifyBLSSignatureManyMessages([]PublicKey{fakeKey{}}, sig, [][]byte{msg}, []hash.Hasher{h})
	verifAssert(bAnd(!ok, IsNotBLSKeyError(err)), "non-BLS key")
	ok, err = VerifyBLSSignatureManyMessages([]PublicKey{pk, IdentityBLSPublicKey()}, sig, [][]byte{msg, msg}, []hash.Hasher{h, h})
	verifAssert(bAnd(!ok, err == nil), "an identity key in the list gives false")
	ok, err = VerifyBLSSignatureManyMessages([]PublicKey{pk}, sig[:47], [][]byte{msg}, []hash.Hasher{h})
	verifAssert(bAnd(!ok, err == nil), "short signature gives false")
	ok, err = VerifyBLSSignatureManyMessages([]PublicKey{pk}, sig, [][]byte{msg}, []hash.Hasher{h})
	verifAssert(bAnd(ok, err == nil), "single triple = Verify")
	_, err = VerifyBLSSignatureOneMessage([]PublicKey{}, sig, msg, h)
	verifAssert(IsBLSAggregateEmptyListError(err), "OneMessage empty list")
	_, err = VerifyBLSSignatureOneMessage([]PublicKey{fakeKey{}}, sig, msg, h)
	verifAssert(IsNotBLSKeyError(err), "OneMessage non-BLS key")
	verifReach("many errors")
}

// ---------------------------------------------------------------------------------------------
// C03: batch verification = individual verification, index by index.
// kinds per position (base 16 digits of `kinds`): 0 valid | 1 valid + d_i*g1 (independent error) | 2 malformed |
// 3 short | 4 valid + torsion point | 5 identity public key | 6 valid + D*g1 | 7 valid - D*g1 (6 and 7 share D) |
// 8 valid followed by one more byte | 9 the valid signature twice (96 bytes) | 10 (a) the identity signature
func zzC03_batch(n, kinds int) {
	msg := nondetBytes(2)
	h := testHasher("batch-tag")
	pks := make([]PublicKey, n)
	sigs := make([]Signature, n)
	var D, mD scalar
	nondetFrStar(&D)
	nondetFrStar(&mD)
	s, _ := AggregateBLSPrivateKeys([]PrivateKey{newPrKeyBLSBLS12381(&D), newPrKeyBLSBLS12381(&mD)})
	verifAssume(s.(*prKeyBLSBLS12381).scalar.isZero()) // mD = -D
	for i := 0; i < n; i++ {
		var x scalar
		nondetFrStar(&x)
		sk := newPrKeyBLSBLS12381(&x)
		pks[i] = sk.PublicKey()
		sig, _ := sk.Sign(msg, h)
		k := digit(kinds, i, 16)
		switch k {
		case 0:
			sigs[i] = sig
		case 1, 6, 7:
			var d scalar
			if k == 1 {
				nondetFrStar(&d)
			} else if k == 6 {
				d = D
			} else {
				d = mD
			}
			var dG, c pointE1
			generatorScalarMultG1(&dG, &d)
			addE1(&c, decodeSigPoint(sig), &dG)
			sigs[i] = make([]byte, g1BytesLen)
			writePointE1(sigs[i], &c)
		case 2:
			sigs[i] = BLSInvalidSignature()
		case 3:
			sigs[i] = sig[:47]
		case 4:
			var T, c pointE1
			unsafeMapToG1Complement(&T, []byte("verif-seed-for-a-point-outside-G1-0123456789abcdef0123456789abcdef0123456789abcdef0123456789abcdef0123456789"))
			addE1(&c, decodeSigPoint(sig), &T)
			sigs[i] = make([]byte, g1BytesLen)
			writePointE1(sigs[i], &c)
		case 5:
			sigs[i] = sig
			pks[i] = IdentityBLSPublicKey()
		case 8:
			sigs[i] = append(append([]byte{}, sig...), nondetByte()) // a valid signature followed by one more byte
		case 9:
			sigs[i] = append(append([]byte{}, sig...), sig...) // 96 bytes: the valid signature twice
		case 10:
			sigs[i] = append([]byte{}, g1Serialization...) // the identity signature under a regular key
		}
	}
	res, err := BatchVerifyBLSSignaturesOneMessage(pks, sigs, msg, h)
	verifAssert(err == nil, "no error for well-formed lists")
	verifAssert(len(res) == n, "one verdict per index")
	for i := 0; i < n; i++ {
		ind, _ := pks[i].Verify(sigs[i], msg, h)
		verifAssert(res[i] == ind, "batch verdict = individual verdict at every index")
		verifAssert(ind == (digit(kinds, i, 16) == 0), "individual verdicts are as constructed")
	}
	verifReach("batch")
}

func zzC03_errors() {
	var x scalar
	nondetFrStar(&x)
	sk := newPrKeyBLSBLS12381(&x)
	msg := nondetBytes(2)
	h := testHasher("batch-tag")
	sig, _ := sk.Sign(msg, h)
	allFalse := func(r []bool, n int) {
		verifAssert(len(r) == n, "result length")
		for _, v := range r {
			verifAssert(!v, "every verdict is false on an input error")
		}
	}
	r, err := BatchVerifyBLSSignaturesOneMessage([]PublicKey{}, []Signature{}, msg, h)
	verifAssert(IsBLSAggregateEmptyListError(err), "empty list")
	allFalse(r, 0)
	r, err = BatchVerifyBLSSignaturesOneMessage([]PublicKey{sk.PublicKey()}, []Signature{sig, sig}, msg, h)
	verifAssert(IsInvalidInputsError(err), "mismatched lengths")
	allFalse(r, 2)
	r, err = BatchVerifyBLSSignaturesOneMessage([]PublicKey{sk.PublicKey()}, []Signature{sig}, msg, nil)
	verifAssert(IsNilHasherError(err), "nil hasher")
	allFalse(r, 1)
	r, err = BatchVerifyBLSSignaturesOneMessage([]PublicKey{sk.PublicKey()}, []Signature{sig}, msg, hash.NewSHA3_256())
	verifAssert(IsInvalidHasherSizeError(err), "wrong-size hasher")
	allFalse(r, 1)
	r, err = BatchVerifyBLSSignaturesOneMessage([]PublicKey{sk.PublicKey(), fakeKey{}}, []Signature{sig, sig}, msg, h)
	verifAssert(IsNotBLSKeyError(err), "non-BLS key")
	allFalse(r, 2)
	verifReach("batch errors")
}

// ---------------------------------------------------------------------------------------------
// C06: threshold key generation and reconstruction

// zzC06_keygen: the shares of BLSThresholdKeyGen lie on one polynomial: every private share matches its
// public share, and reconstruction from the signer set `set` (bit i = signer i), in the given rotation,
// through the stateless API yields the signature of the group key.
func zzC06_stateless(n, t, set, rot int) {
	seed := nondetBytes(KeyGenSeedMinLen)
	sks, pks, gpk, err := BLSThresholdKeyGen(n, t, seed)
	verifAssert(err == nil, "key generation accepts valid parameters")
	verifAssert(bAnd(len(sks) == n, len(pks) == n), "n shares")
	for i := 0; i < n; i++ {
		verifAssert(sks[i].PublicKey().Equals(pks[i]), "each private share matches its public share")
	}
	assumeNoZeroShare(pks, gpk)
	msg := nondetBytes(2)
	h := testHasher("thr-tag")
	signers := make([]int, 0, n)
	for i := 0; i < n; i++ {
		if (set>>uint(i))&1 == 1 {
			signers = append(signers, i)
		}
	}
	k := len(signers)
	ord := make([]int, k)
	for i := 0; i < k; i++ {
		ord[i] = signers[(i+rot)%k]
	}
	shares := make([]Signature, k)
	for i, s := range ord {
		shares[i], _ = sks[s].Sign(msg, h)
		ok, _ := pks[s].Verify(shares[i], msg, h)
		verifAssert(ok, "a signature share verifies under its public key share")
	}
	sig, err := BLSReconstructThresholdSignature(n, t, shares, ord)
	if k < t+1 {
		verifAssert(bAnd(sig == nil, IsNotEnoughSharesError(err)), "fewer than t+1 shares give a not-enough-shares error")
		verifReach("stateless not enough")
		return
	}
	verifAssert(err == nil, "reconstruction succeeds with at least t+1 valid shares")
	ok, err := gpk.Verify(sig, msg, h)
	verifAssert(bAnd(ok, err == nil), "the reconstructed signature is valid under the group public key")
	// the same bytes for another order (reverse)
	rshares, rord := make([]Signature, k), make([]int, k)
	for i := 0; i < k; i++ {
		rshares[i], rord[i] = shares[k-1-i], ord[k-1-i]
	}
	sig2, err := BLSReconstructThresholdSignature(n, t, rshares, rord)
	verifAssert(err == nil, "reconstruction in another order succeeds")
	assertEqBytes(sig2, sig, "the reconstructed signature does not depend on the order of the shares")
	verifReach("stateless")
}

// a key share (or the group key) of a random polynomial is zero with probability 1/r: excluded
func assumeNoZeroShare(pks []PublicKey, gpk PublicKey) {
	for _, pk := range pks {
		verifAssume(!pk.(*pubKeyBLSBLS12381).isIdentity)
	}
	verifAssume(!gpk.(*pubKeyBLSBLS12381).isIdentity)
}

// zzC06_subsets: two different signer sets give the same 48 bytes.
func zzC06_subsets(n, t, set1, set2 int) {
	seed := nondetBytes(KeyGenSeedMinLen)
	sks, pks, gpk, _ := BLSThresholdKeyGen(n, t, seed)
	assumeNoZeroShare(pks, gpk)
	msg := nondetBytes(2)
	h := testHasher("thr-tag")
	rec := func(set int) Signature {
		var shares []Signature
		var signers []int
		for i := 0; i < n; i++ {
			if (set>>uint(i))&1 == 1 {
				s, _ := sks[i].Sign(msg, h)
				shares = append(shares, s)
				signers = append(signers, i)
			}
		}
		sig, err := BLSReconstructThresholdSignature(n, t, shares, signers)
		verifAssert(err == nil, "reconstruction succeeds")
		return sig
	}
	a, b := rec(set1), rec(set2)
	assertEqBytes(a, b, "every set of at least t+1 signers reconstructs the same signature")
	ok, _ := gpk.Verify(a, msg, h)
	verifAssert(ok, "valid under the group public key")
	verifReach("subsets")
}

// zzC06_stateful: the stateful object: shares are added (TrustedAdd or VerifyAndAdd); an invalid share
// added with TrustedAdd makes ThresholdSignature fail instead of returning an unverified signature.
func zzC06_stateful(n, t, set int, badKind int, trusted bool) {
	seed := nondetBytes(KeyGenSeedMinLen)
	sks, pks, gpk, _ := BLSThresholdKeyGen(n, t, seed)
	assumeNoZeroShare(pks, gpk)
	msg := nondetBytes(2)
	ts, err := NewBLSThresholdSignatureInspector(gpk, pks, t, msg, "thr-tag")
	verifAssert(err == nil, "inspector constructor")
	h := testHasher("thr-tag")
	added := 0
	first := true
	for i := 0; i < n; i++ {
		if (set>>uint(i))&1 == 0 {
			continue
		}
		share, _ := sks[i].Sign(msg, h)
		bad := first && badKind > 0
		if bad {
			switch badKind {
			case 1: // a different G1 element
				var d scalar
				nondetFrStar(&d)
				var dG, c pointE1
				generatorScalarMultG1(&dG, &d)
				addE1(&c, decodeSigPoint(share), &dG)
				share = make([]byte, g1BytesLen)
				writePointE1(share, &c)
			case 2: // the share of another signer (two key shares coincide with probability 1/r: excluded)
				verifAssume(!sks[i].Equals(sks[(i+1)%n]))
				share, _ = sks[(i+1)%n].Sign(msg, h)
			case 3: // malformed
				share = BLSInvalidSignature()
			}
		}
		first = false
		if trusted {
			enough, err := ts.TrustedAdd(i, share)
			verifAssert(err == nil, "TrustedAdd of a new signer")
			if added < t+1 {
				added++
			}
			verifAssert(enough == (added == t+1), "TrustedAdd reports whether enough shares were collected")
		} else {
			valid, enough, err := ts.VerifyAndAdd(i, share)
			verifAssert(err == nil, "VerifyAndAdd of a new signer")
			verifAssert(valid == !bad, "VerifyAndAdd reports the validity of the share")
			if valid && added < t+1 {
				added++
			}
			verifAssert(enough == (added == t+1), "VerifyAndAdd reports whether enough shares were collected")
		}
		has, _ := ts.HasShare(i)
		verifAssert(bOr(has, bOr(bAnd(!trusted, bad), added == t+1)), "an accepted share is retained (unless enough were already collected)")
	}
	verifAssert(ts.EnoughShares() == (added == t+1), "EnoughShares")
	sig, err := ts.ThresholdSignature()
	if added < t+1 {
		verifAssert(bAnd(sig == nil, IsNotEnoughSharesError(err)), "not enough shares")
		verifReach("stateful not enough")
		return
	}
	if sig != nil {
		ok, _ := gpk.Verify(sig, msg, h)
		verifAssert(ok, "the stateful object never returns a threshold signature that fails verification under the group key")
		again, err := ts.ThresholdSignature()
		verifAssert(err == nil, "second call succeeds")
		assertEqBytes(again, sig, "later calls return the same signature")
		verifReach("stateful signature")
	} else {
		verifAssert(err != nil, "nil signature comes with an error")
		verifAssert(bAnd(trusted, badKind > 0), "reconstruction only fails if an invalid share was added with TrustedAdd")
		verifReach("stateful rejected")
	}
}

// zzC06_stateful_mixed: a well-formed but wrong share added through TrustedAdd, the threshold reached with valid
// trusted shares, then further VALID shares offered through VerifyAndAdd (verified, not stored because enough were
// collected, the last one offered twice): ThresholdSignature must still refuse (the reconstruction does not
// verify under the group key) -- on every call -- and never return or cache an unverified signature.
func zzC06_stateful_mixed(n, t int) {
	seed := nondetBytes(KeyGenSeedMinLen)
	sks, pks, gpk, _ := BLSThresholdKeyGen(n, t, seed)
	assumeNoZeroShare(pks, gpk)
	msg := nondetBytes(2)
	ts, err := NewBLSThresholdSignatureInspector(gpk, pks, t, msg, "thr-tag")
	verifAssert(err == nil, "inspector constructor")
	h := testHasher("thr-tag")
	shares := make([]Signature, n)
	for i := range shares {
		shares[i], _ = sks[i].Sign(msg, h)
	}
	verifAssume(!sks[0].Equals(sks[1]))
	// signer 0 is credited with the share of signer 1 (well-formed, in G1, wrong)
	_, err = ts.TrustedAdd(0, shares[1])
	verifAssert(err == nil, "TrustedAdd of a wrong share is not an error")
	for i := 1; i <= t; i++ {
		_, err = ts.TrustedAdd(i, shares[i])
		verifAssert(err == nil, "TrustedAdd of a valid share")
	}
	verifAssert(ts.EnoughShares(), "threshold reached")
	for k := 0; k < 2; k++ {
		for i := t + 1; i < n; i++ {
			valid, enough, err := ts.VerifyAndAdd(i, shares[i])
			verifAssert(bAnd(valid, bAnd(enough, err == nil)), "a valid late share verifies; enough shares were already collected")
			has, _ := ts.HasShare(i)
			verifAssert(!has, "a late share is not retained")
		}
	}
	for k := 0; k < 2; k++ {
		sig, err := ts.ThresholdSignature()
		verifAssert(bAnd(sig == nil, err != nil), "ThresholdSignature never returns a signature that does not verify under the group key")
		if sig != nil {
			ok, _ := gpk.Verify(sig, msg, h)
			verifAssert(ok, "a returned threshold signature verifies under the group key")
		}
	}
	verifReach("stateful mixed")
}

func zzC06_errors() {
	seed := nondetBytes(KeyGenSeedMinLen)
	size, thr := nondetInt(), nondetInt()
	verifAssume(bOr(bOr(size < 2, size > 254), bOr(thr < 1, thr >= size)))
	_, _, _, err := BLSThresholdKeyGen(size, thr, seed)
	verifAssert(IsInvalidInputsError(err), "key generation rejects sizes / thresholds outside the documented ranges")
	sks, _, _, _ := BLSThresholdKeyGen(3, 1, seed)
	msg := nondetBytes(2)
	h := testHasher("thr-tag")
	s0, _ := sks[0].Sign(msg, h)
	s1, _ := sks[1].Sign(msg, h)
	_, err = BLSReconstructThresholdSignature(3, 1, []Signature{s0, s1}, []int{0, 0})
	verifAssert(IsDuplicatedSignerError(err), "duplicate signer")
	idx := nondetInt()
	verifAssume(bOr(idx < 0, idx >= 3))
	_, err = BLSReconstructThresholdSignature(3, 1, []Signature{s0, s1}, []int{0, idx})
	verifAssert(IsInvalidInputsError(err), "out-of-range signer")
	_, err = BLSReconstructThresholdSignature(3, 1, []Signature{s0, s1}, []int{0})
	verifAssert(IsInvalidInputsError(err), "mismatched lists")
	_, err = BLSReconstructThresholdSignature(3, 1, []Signature{s0}, []int{0})
	verifAssert(IsNotEnoughSharesError(err), "not enough shares")
	_, err = BLSReconstructThresholdSignature(3, 1, []Signature{s0, BLSInvalidSignature()}, []int{0, 1})
	verifAssert(IsInvalidSignatureError(err), "malformed share")
	e, err := EnoughShares(1, 2)
	verifAssert(bAnd(e, err == nil), "EnoughShares(1, 2)")
	e, err = EnoughShares(1, 1)
	verifAssert(bAnd(!e, err == nil), "EnoughShares(1, 1)")
	_, err = EnoughShares(0, 1)
	verifAssert(IsInvalidInputsError(err), "EnoughShares threshold 0")
	verifReach("threshold errors")
}

// zzC06_limbLemma: Lagrange coefficient i for deg+1 arbitrary distinct signer indices. Symbolically the body is
// replaced by the limb lemma on the real C function (see symex/stubs_galg.py: every 64-bit batch product equals
// the integer product, the sign is the parity of the smaller indices); natively -- for replaying a
// counterexample -- the indices from the tape drive a real reconstruction that must verify under the group key.
func zzC06_limbLemma(deg int, pattern int) {
	idx := make([]byte, deg+1)
	for k := range idx {
		idx[k] = nondetByte()
	}
	for k := range idx {
		verifAssume(idx[k] != 0 && idx[k] <= 254)
		for l := 0; l < k; l++ {
			verifAssume(idx[k] != idx[l])
		}
	}
	seed := make([]byte, KeyGenSeedMinLen)
	sks, _, gpk, err := BLSThresholdKeyGen(254, deg, seed)
	verifAssume(err == nil)
	msg := []byte("limb lemma")
	h := testHasher("thr-tag")
	shares := make([]Signature, deg+1)
	signers := make([]int, deg+1)
	for k := range idx {
		signers[k] = int(idx[k]) - 1
		shares[k], _ = sks[signers[k]].Sign(msg, h)
	}
	sig, err := BLSReconstructThresholdSignature(254, deg, shares, signers)
	verifAssert(err == nil, "reconstruction from valid shares succeeds")
	ok, err := gpk.Verify(sig, msg, h)
	verifAssert(bAnd(ok, err == nil), "the reconstructed signature verifies under the group key (Lagrange coefficients are right)")
	verifReach("limb lemma")
}
