//go:build verif_harness

package crypto

import (
	"encoding/binary"

	"github.com/onflow/crypto/hash"
)

// nondetFr sets x to an arbitrary element of F_r (symbolically: a fresh generator of the
// polynomial domain; natively: 32 tape bytes reduced mod r).
func nondetFr(x *scalar) {
	var b [32]byte
	for i := 0; i < 4; i++ {
		binary.BigEndian.PutUint64(b[8*i:], nondetU64())
	}
	mapToFr(x, b[:])
}

// nondetFrStar: arbitrary non-zero element of F_r
func nondetFrStar(x *scalar) {
	nondetFr(x)
	verifAssume(!x.isZero())
}

func testHasher(tag string) hash.Hasher {
	return NewExpandMsgXOFKMAC128(tag)
}

// zzC01_sign_verify: for every non-zero private key and every message, Verify accepts Sign's output.
func zzC01_sign_verify(msgLen int) {
	var x scalar
	nondetFrStar(&x)
	sk := newPrKeyBLSBLS12381(&x)
	pk := sk.PublicKey()
	msg := nondetBytes(msgLen)
	h := testHasher("verif-tag")
	sig, err := sk.Sign(msg, h)
	verifAssert(err == nil, "Sign succeeds")
	verifAssert(len(sig) == SignatureLenBLSBLS12381, "signature is 48 bytes")
	ok, err := pk.Verify(sig, msg, h)
	verifAssert(err == nil, "Verify returns no error")
	verifAssert(ok, "Verify accepts the signature Sign produced")
	verifReach("sign_verify")
}

func decodeSigPoint(sig []byte) *pointE1 {
	var p pointE1
	if readPointE1(&p, sig) != nil {
		return nil
	}
	return &p
}

// zzC01_candidates: the acceptance set of Verify. Candidates are a*H(m) + b*g1 (+ a point with a
// component outside G1): every point of E1 is of that form. Verify accepts exactly when the candidate
// is the group element sk*H(m) and lies in G1.
func zzC01_candidates(msgLen int, withTorsion bool) {
	var x, a, b scalar
	nondetFrStar(&x)
	nondetFr(&a)
	nondetFr(&b)
	sk := newPrKeyBLSBLS12381(&x)
	pk := sk.PublicKey()
	msg := nondetBytes(msgLen)
	h := testHasher("verif-tag")
	sig, _ := sk.Sign(msg, h)
	sigPt := decodeSigPoint(sig)
	verifAssert(sigPt != nil, "Sign output decodes")
	H := mapToG1(h.ComputeHash(msg))
	var aH, bG, cand pointE1
	H.scalarMultE1(&aH, &a)
	generatorScalarMultG1(&bG, &b)
	addE1(&cand, &aH, &bG)
	if withTorsion {
		var T pointE1
		unsafeMapToG1Complement(&T, []byte("verif-seed-for-a-point-outside-G1-0123456789abcdef0123456789abcdef0123456789abcdef0123456789abcdef0123456789"))
		addE1(&cand, &cand, &T)
	}
	cb := make([]byte, g1BytesLen)
	writePointE1(cb, &cand)
	ok, err := pk.Verify(cb, msg, h)
	verifAssert(err == nil, "Verify returns no error")
	same := cand.equals(sigPt)
	inG1 := checkMembershipG1(&cand)
	verifAssert(ok == bAnd(same, inG1), "Verify accepts exactly the group element sk*H(m) in G1")
	if withTorsion {
		verifAssert(!ok, "a point with a component outside G1 is never accepted")
	}
	verifReach("candidates")
}

// zzC01_raw: an arbitrary 48-byte string (or another length) as signature: accepted only if it decodes
// to the group element sk*H(m) in G1; wrong lengths are (false, nil).
func zzC01_raw(n int) {
	var x scalar
	nondetFrStar(&x)
	sk := newPrKeyBLSBLS12381(&x)
	pk := sk.PublicKey()
	msg := nondetBytes(2)
	h := testHasher("verif-tag")
	sig, _ := sk.Sign(msg, h)
	sigPt := decodeSigPoint(sig)
	raw := nondetBytes(n)
	ok, err := pk.Verify(raw, msg, h)
	verifAssert(err == nil, "Verify returns no error")
	if n != SignatureLenBLSBLS12381 {
		verifAssert(!ok, "wrong-length signatures are rejected")
		verifReach("raw wrong length")
		return
	}
	if ok {
		p := decodeSigPoint(raw)
		verifAssert(p != nil, "an accepted signature decodes")
		verifAssert(p.equals(sigPt), "an accepted signature is the group element sk*H(m)")
		verifAssert(checkMembershipG1(p), "an accepted signature is in G1")
		verifReach("raw accepted")
	} else {
		verifReach("raw rejected")
	}
}

// zzC01_other: a signature does not verify for another message, under another key, or with a hasher
// for another domain tag; the identity signature and the identity key are rejected.
func zzC01_other(which int) {
	var x, y scalar
	nondetFrStar(&x)
	nondetFrStar(&y)
	sk := newPrKeyBLSBLS12381(&x)
	pk := sk.PublicKey()
	msg := nondetBytes(2)
	h := testHasher("verif-tag")
	sig, _ := sk.Sign(msg, h)
	switch which {
	case 0: // another message
		msg2 := nondetBytes(2)
		verifAssume(bOr(msg2[0] != msg[0], msg2[1] != msg[1]))
		ok, err := pk.Verify(sig, msg2, h)
		verifAssert(bAnd(!ok, err == nil), "another message is rejected")
	case 1: // another key
		verifAssume(!x.equals(&y))
		pk2 := newPrKeyBLSBLS12381(&y).PublicKey()
		ok, err := pk2.Verify(sig, msg, h)
		verifAssert(bAnd(!ok, err == nil), "another key is rejected")
	case 2: // another domain tag
		ok, err := pk.Verify(sig, msg, testHasher("verif-tag2"))
		verifAssert(bAnd(!ok, err == nil), "another domain tag is rejected")
	case 3: // identity signature
		ok, err := pk.Verify(g1Serialization, msg, h)
		verifAssert(bAnd(!ok, err == nil), "the identity signature is rejected")
	case 4: // identity public key, any signature
		ok, err := IdentityBLSPublicKey().Verify(sig, msg, h)
		verifAssert(bAnd(!ok, err == nil), "the identity key rejects a valid-looking signature")
		ok, err = IdentityBLSPublicKey().Verify(g1Serialization, msg, h)
		verifAssert(bAnd(!ok, err == nil), "the identity key rejects the identity signature")
		raw := nondetBytes(48)
		ok, err = IdentityBLSPublicKey().Verify(raw, msg, h)
		verifAssert(bAnd(!ok, err == nil), "the identity key rejects every string")
	case 5: // hasher guards
		ok, err := pk.Verify(sig, msg, nil)
		verifAssert(bAnd(!ok, IsNilHasherError(err)), "nil hasher error")
		_, err = sk.Sign(msg, nil)
		verifAssert(IsNilHasherError(err), "nil hasher error on Sign")
		ok, err = pk.Verify(sig, msg, hash.NewSHA3_256())
		verifAssert(bAnd(!ok, IsInvalidHasherSizeError(err)), "wrong-size hasher error")
		_, err = sk.Sign(msg, hash.NewSHA3_384())
		verifAssert(IsInvalidHasherSizeError(err), "wrong-size hasher error on Sign")
	case 6: // negated signature
		p := decodeSigPoint(sig)
		var np pointE1
		var minusOne scalar
		nb := blsOrderBE
		nb[31] = 0 // r - 1
		verifAssert(readScalarFrStar(&minusOne, nb[:]) == nil, "r-1 is a valid scalar")
		p.scalarMultE1(&np, &minusOne)
		cb := make([]byte, g1BytesLen)
		writePointE1(cb, &np)
		ok, err := pk.Verify(cb, msg, h)
		verifAssert(bAnd(!ok, err == nil), "the negated signature is rejected")
	}
	verifReach("other")
}
