//go:build verif_harness && cgo

package crypto

// Harnesses for the DKG properties C07, C08, C10 and the DKG part of C09.

// recProc records every DKGProcessor callback.
type recProc struct {
	bcasts   [][]byte
	privDest []int
	privMsgs [][]byte
	disq     []int
	flags    []int
}

func (p *recProc) PrivateSend(dest int, data []byte) {
	p.privDest = append(p.privDest, dest)
	p.privMsgs = append(p.privMsgs, data)
}
func (p *recProc) Broadcast(data []byte)             { p.bcasts = append(p.bcasts, data) }
func (p *recProc) Disqualify(i int, log string)      { p.disq = append(p.disq, i) }
func (p *recProc) FlagMisbehavior(i int, log string) { p.flags = append(p.flags, i) }
func (p *recProc) callbacks() int {
	return len(p.bcasts) + len(p.privMsgs) + len(p.disq) + len(p.flags)
}

// ---- message builders (natively: a real honest dealer; symbolically: constrained fresh bytes) ----

type dealingData struct {
	vec    []byte
	shares [][]byte
	a0     []byte
}

var dkgDealings = map[[4]int]*dealingData{}

func dkgDealingGet(id, n, t, dealer int) *dealingData {
	key := [4]int{id, n, t, dealer}
	if d, ok := dkgDealings[key]; ok {
		return d
	}
	proc := &recProc{}
	st, err := NewFeldmanVSSQual(n, t, dealer, proc, dealer)
	if err != nil {
		panic(err)
	}
	seed := make([]byte, KeyGenSeedMinLen)
	seed[0], seed[1], seed[2] = byte(id), byte(n), byte(t)
	if err := st.Start(seed); err != nil {
		panic(err)
	}
	d := &dealingData{vec: proc.bcasts[0], shares: make([][]byte, n)}
	d.a0 = make([]byte, 1+frBytesLen)
	d.a0[0] = byte(feldmanVSSShare)
	writeScalar(d.a0[1:], &st.(*feldmanVSSQualState).a[0])
	for k, dest := range proc.privDest {
		d.shares[dest] = proc.privMsgs[k]
	}
	dkgDealings[key] = d
	return d
}

// dkgDealingVec returns the tagged verification-vector broadcast of honest dealing #id.
func dkgDealingVec(id, n, t, dealer int) []byte {
	return append([]byte{}, dkgDealingGet(id, n, t, dealer).vec...)
}

// dkgDealingShare returns the tagged private share message of honest dealing #id for participant i.
func dkgDealingShare(id, n, t, dealer, i int) []byte {
	return append([]byte{}, dkgDealingGet(id, n, t, dealer).shares[i]...)
}

// dkgDealingA0 returns a share message whose scalar is the constant coefficient a_0 of dealing #id.
func dkgDealingA0(id, n, t, dealer int) []byte {
	return append([]byte{}, dkgDealingGet(id, n, t, dealer).a0...)
}

// dkgBadChunk returns 96 bytes that are not a valid G2 element encoding:
// kind 0: bad encoding (header), kind 1: a curve point outside G2.
func dkgBadChunk(kind int) []byte {
	b := make([]byte, g2BytesLen)
	if kind == 0 {
		b[0] = 0xE0
		return b
	}
	var p pointE2
	seed := make([]byte, 192) // (the C helper requires at least 192 bytes)
	copy(seed, []byte("verif-seed-for-a-point-outside-G2-0123456789abcdef"))
	unsafeMapToG2Complement(&p, seed)
	writePointE2(b, &p)
	return b
}

// vector message of a given kind for dealing 0 (n participants, threshold t, dealer d)
//
//	0 honest | 1 one byte short | 2 one byte long | 3 last chunk bad encoding | 4 last chunk outside G2
//	5 empty body | 6 honest vector of another dealing (well-formed, inconsistent with dealing 0 shares)
//	7 empty message | 8 undefined tag
const vecKinds = 9

func dkgVecMsg(kind, n, t, d int) []byte {
	v := dkgDealingVec(0, n, t, d)
	switch kind {
	case 0:
		return v
	case 1:
		return v[:len(v)-1]
	case 2:
		return append(v, 0)
	case 3:
		copy(v[len(v)-g2BytesLen:], dkgBadChunk(0))
		return v
	case 4:
		copy(v[len(v)-g2BytesLen:], dkgBadChunk(1))
		return v
	case 5:
		return v[:1]
	case 6:
		return dkgDealingVec(1, n, t, d)
	case 7:
		return []byte{}
	default:
		v[0] = 17
		return v
	}
}

// share message kinds: 0 honest | 1 well-formed share of another dealing | 2 zero scalar | 3 scalar = r
//
//	4 one byte short | 5 one byte long | 6 empty | 7 wrong tag | 8 tag only
const shareKinds = 9

func dkgShareMsg(kind, n, t, d, i int) []byte {
	s := dkgDealingShare(0, n, t, d, i)
	switch kind {
	case 0:
		return s
	case 1:
		return dkgDealingShare(1, n, t, d, i)
	case 2:
		for k := 1; k < len(s); k++ {
			s[k] = 0
		}
		return s
	case 3:
		copy(s[1:], blsOrderBE[:])
		return s
	case 4:
		return s[:len(s)-1]
	case 5:
		return append(s, 0)
	case 6:
		return []byte{}
	case 7:
		s[0] = byte(feldmanVSSVerifVec)
		return s
	case 9:
		return dkgDealingA0(0, n, t, d)
	default:
		return s[:1]
	}
}

func isDKGErrClass(err error) int {
	switch {
	case err == nil:
		return 0
	case IsDKGInvalidStateTransitionError(err):
		return 1
	case IsInvalidInputsError(err):
		return 2
	case IsDKGFailureError(err):
		return 3
	}
	return 4
}

// ---------------------------------------------------------------------------------------------
// C08 (plain Feldman VSS): every order of (vector, share) and every kind; End gives keys only if the
// vector was valid and the share matches it; otherwise a DKG-failure error. No panic on any path.

func zzDKG_fvss_orders(vecKind, shareKind int, shareFirst, dupVec, dupShare bool) {
	const n, t, d, me = 3, 1, 0, 1
	proc := &recProc{}
	st, err := NewFeldmanVSS(n, t, me, proc, d)
	verifAssert(err == nil, "constructor accepts valid parameters")
	verifAssert(st.Start(nondetBytes(32)) == nil, "Start")
	vec := dkgVecMsg(vecKind, n, t, d)
	sh := dkgShareMsg(shareKind, n, t, d, me)
	deliver := func(first bool) {
		if first == shareFirst {
			verifAssert(st.HandlePrivateMsg(d, sh) == nil, "HandlePrivateMsg returns nil while running")
			if dupShare {
				verifAssert(st.HandlePrivateMsg(d, dkgShareMsg(0, n, t, d, me)) == nil, "duplicate share handled")
			}
		} else {
			verifAssert(st.HandleBroadcastMsg(d, vec) == nil, "HandleBroadcastMsg returns nil while running")
			if dupVec {
				verifAssert(st.HandleBroadcastMsg(d, dkgVecMsg(0, n, t, d)) == nil, "duplicate vector handled")
			}
		}
	}
	deliver(true)
	deliver(false)
	verifAssert(st.NextTimeout() == nil, "NextTimeout is a no-op for plain Feldman VSS")
	sk, pk, pks, err := st.End()
	good := (vecKind == 0 && shareKind == 0) || (vecKind == 6 && shareKind == 1) // a consistent honest dealing
	if good {
		verifAssert(err == nil, "honest dealing gives keys")
		verifAssert(bAnd(sk != nil, pk != nil), "keys returned")
		verifAssert(len(pks) == n, "n public key shares")
		verifAssert(len(proc.disq) == 0, "honest dealer not disqualified")
	} else {
		verifAssert(err != nil, "invalid vector or non-matching share never yields keys")
		verifAssert(IsDKGFailureError(err), "failure is reported as a DKG-failure error")
		verifAssert(bAnd(sk == nil, pk == nil), "no keys on failure")
	}
	verifAssert(!st.Running(), "End leaves the instance not running")
	for _, x := range proc.disq {
		verifAssert(x == d, "only the dealer can be disqualified")
	}
	for _, x := range proc.flags {
		verifAssert(x == d, "only the dealer can be flagged")
	}
	verifReach("fvss orders")
}

// ---------------------------------------------------------------------------------------------
// C08 / C07 (Feldman VSS Qual), non-dealer participant: round 1 deliveries in both orders and all
// kinds, first timeout, round 2 (the dealer's answer to our complaint: valid / invalid / missing /
// malformed, other participants' complaints), second timeout, End.

// answer kinds: 0 none | 1 valid (share of dealing 0) | 2 well-formed but wrong (share of dealing 1)
// 3 zero scalar | 4 wrong length | 5 complainer index out of range
const answerKinds = 6

func dkgAnswerMsg(kind, n, t, d, complainer int) []byte {
	msg := make([]byte, 2+frBytesLen)
	msg[0] = byte(feldmanVSSComplaintAnswer)
	msg[1] = byte(complainer)
	switch kind {
	case 1:
		copy(msg[2:], dkgDealingShare(0, n, t, d, complainer)[1:])
	case 2:
		copy(msg[2:], dkgDealingShare(1, n, t, d, complainer)[1:])
	case 3:
	case 4:
		copy(msg[2:], dkgDealingShare(0, n, t, d, complainer)[1:])
		return msg[:len(msg)-1]
	case 5:
		copy(msg[2:], dkgDealingShare(0, n, t, d, complainer)[1:])
		msg[1] = byte(n)
	}
	return msg
}

func countComplaints(bcasts [][]byte) int {
	c := 0
	for _, b := range bcasts {
		if len(b) > 0 && dkgMsgTag(b[0]) == feldmanVSSComplaint {
			c++
		}
	}
	return c
}

func zzDKG_qual_participant(vecKind, shareKind int, shareFirst bool, answerKind int, otherComplains bool, otherAnswerKind int) {
	zzDKG_qual_participant_early(vecKind, shareKind, shareFirst, answerKind, otherComplains, otherAnswerKind, 0)
}

// earlyKind > 0: the dealer broadcasts an (unsolicited) complaint answer naming this participant in round 1,
// before its share and vector are delivered.
func zzDKG_qual_participant_early(vecKind, shareKind int, shareFirst bool, answerKind int, otherComplains bool, otherAnswerKind int, earlyKind int) {
	const n, t, d, me, other = 4, 2, 0, 1, 2
	proc := &recProc{}
	st, err := NewFeldmanVSSQual(n, t, me, proc, d)
	verifAssert(err == nil, "constructor accepts valid parameters")
	verifAssert(st.Start(nondetBytes(32)) == nil, "Start")
	vec := dkgVecMsg(vecKind, n, t, d)
	sh := dkgShareMsg(shareKind, n, t, d, me)
	if earlyKind > 0 {
		verifAssert(st.HandleBroadcastMsg(d, dkgAnswerMsg(earlyKind, n, t, d, me)) == nil, "early answer handled")
	}
	// round 1 (vecKind < 0 / shareKind < 0: message omitted)
	for k := 0; k < 2; k++ {
		if (k == 0) == shareFirst {
			if shareKind >= 0 {
				verifAssert(st.HandlePrivateMsg(d, sh) == nil, "HandlePrivateMsg returns nil")
			}
		} else if vecKind >= 0 {
			verifAssert(st.HandleBroadcastMsg(d, vec) == nil, "HandleBroadcastMsg returns nil")
		}
	}
	verifAssert(st.NextTimeout() == nil, "first timeout accepted")
	iComplained := countComplaints(proc.bcasts)
	verifAssert(iComplained <= 1, "an honest participant broadcasts its complaint at most once")
	vecOK := vecKind == 0 || vecKind == 6
	shareMatches := (vecKind == 0 && shareKind == 0) || (vecKind == 6 && shareKind == 1)
	if vecOK && earlyKind < 3 { // (a malformed unsolicited answer disqualifies the dealer at once: the instance then ignores it)
		verifAssert((iComplained == 1) == !shareMatches, "complaint iff the share is missing, malformed or does not match the vector")
	}
	// round 2: the other honest participant's complaint (it is honest, so it only complains with cause),
	// then the dealer's answers
	if otherComplains {
		verifAssert(st.HandleBroadcastMsg(other, []byte{byte(feldmanVSSComplaint), byte(d)}) == nil, "complaint handled")
	}
	if answerKind > 0 {
		verifAssert(st.HandleBroadcastMsg(d, dkgAnswerMsg(answerKind, n, t, d, me)) == nil, "answer handled")
	}
	if otherAnswerKind > 0 {
		verifAssert(st.HandleBroadcastMsg(d, dkgAnswerMsg(otherAnswerKind, n, t, d, other)) == nil, "answer handled")
	}
	verifAssert(st.NextTimeout() == nil, "second timeout accepted")
	verifAssert(IsDKGInvalidStateTransitionError(st.NextTimeout()), "third timeout refused")
	sk, pk, pks, err := st.End()
	verifAssert(countComplaints(proc.bcasts) == iComplained, "no complaint is built after the first timeout")
	for _, x := range proc.disq {
		verifAssert(x == d, "only the (Byzantine) dealer is ever disqualified by an honest participant")
	}
	for _, x := range proc.flags {
		verifAssert(x == d, "only the (Byzantine) dealer is ever flagged by an honest participant")
	}
	// expected verdict from the documented rules
	refVec := 0 // which dealing the vector belongs to
	if vecKind == 6 {
		refVec = 1
	}
	answerGood := func(kind int) bool { return (kind == 1 && refVec == 0) || (kind == 2 && refVec == 1) }
	disq := !vecOK
	if earlyKind >= 3 {
		disq = true // malformed unsolicited answer
	}
	// the first answer naming this participant is the one that counts (a later one is a flagged duplicate)
	if earlyKind == 1 || earlyKind == 2 {
		answerKind = earlyKind
	}
	if vecOK {
		if iComplained == 1 && !answerGood(answerKind) {
			disq = true // our complaint unanswered or wrongly answered
		}
		if otherComplains && !answerGood(otherAnswerKind) {
			disq = true
		}
		// an unsolicited / malformed answer also disqualifies the dealer
		if answerKind >= 3 || otherAnswerKind >= 3 {
			disq = true
		}
	}
	if disq {
		verifAssert(IsDKGFailureError(err), "a dealer with a missing/late/malformed vector, or an unanswered or wrongly answered complaint, is disqualified")
		verifAssert(bAnd(sk == nil, pk == nil), "no keys when the dealer is disqualified")
	} else {
		verifAssert(err == nil, "a dealer that dealt and answered correctly is qualified")
		verifAssert(len(pks) == n, "n public key shares")
	}
	verifAssert(!st.Running(), "End leaves the instance not running")
	verifReach("qual participant")
}

// ---------------------------------------------------------------------------------------------
// C07: two honest participants fed with the same broadcasts (and their own private shares) reach the
// same verdict on the dealer; their complaints are routed to each other as the code emits them.

func zzDKG_qual_agreement(vecKind, share1Kind, share2Kind int, order int, answer1Kind, answer2Kind int) {
	zzDKG_qual_agreement_early(vecKind, share1Kind, share2Kind, order, answer1Kind, answer2Kind, 0)
}

// early1Kind > 0: in round 1, before anything else, the dealer broadcasts an unsolicited complaint answer naming
// participant 1 (reliable broadcast: both honest participants see it).
func zzDKG_qual_agreement_early(vecKind, share1Kind, share2Kind int, order int, answer1Kind, answer2Kind int, early1Kind int) {
	const n, t, d = 4, 1, 0
	me := [2]int{1, 2}
	procs := [2]*recProc{{}, {}}
	var st [2]DKGState
	for k := 0; k < 2; k++ {
		s, err := NewFeldmanVSSQual(n, t, me[k], procs[k], d)
		verifAssert(err == nil, "constructor")
		verifAssert(s.Start(nondetBytes(32)) == nil, "Start")
		st[k] = s
	}
	if early1Kind > 0 {
		m := dkgAnswerMsg(early1Kind, n, t, d, me[0])
		_ = st[0].HandleBroadcastMsg(d, m)
		_ = st[1].HandleBroadcastMsg(d, m)
	}
	vec := dkgVecMsg(vecKind, n, t, d)
	shKinds := [2]int{share1Kind, share2Kind}
	for k := 0; k < 2; k++ {
		sh := dkgShareMsg(shKinds[k], n, t, d, me[k])
		shareFirst := (order>>uint(k))&1 == 1
		for j := 0; j < 2; j++ {
			if (j == 0) == shareFirst {
				if shKinds[k] >= 0 {
					_ = st[k].HandlePrivateMsg(d, sh)
				}
			} else if vecKind >= 0 {
				_ = st[k].HandleBroadcastMsg(d, vec)
			}
		}
	}
	for k := 0; k < 2; k++ {
		verifAssert(st[k].NextTimeout() == nil, "first timeout")
	}
	// route the honest participants' broadcasts (complaints) to each other; reliable broadcast: both see them
	// (order bit 2: participant 2 receives the dealer's round-2 answers BEFORE participant 1's complaint --
	// messages of different senders may interleave differently at different receivers)
	lateAt2 := order&4 != 0
	sent := [2]int{len(procs[0].bcasts), len(procs[1].bcasts)}
	for k := 0; k < 2; k++ {
		if k == 0 && lateAt2 {
			continue
		}
		for _, b := range procs[k].bcasts[:sent[k]] {
			verifAssert(st[1-k].HandleBroadcastMsg(me[k], b) == nil, "honest complaint handled")
		}
	}
	// the dealer's answers (same broadcast to both)
	ans := [2]int{answer1Kind, answer2Kind}
	for k := 0; k < 2; k++ {
		if ans[k] > 0 {
			m := dkgAnswerMsg(ans[k], n, t, d, me[k])
			_ = st[0].HandleBroadcastMsg(d, m)
			_ = st[1].HandleBroadcastMsg(d, m)
		}
	}
	if lateAt2 {
		for _, b := range procs[0].bcasts[:sent[0]] {
			verifAssert(st[1].HandleBroadcastMsg(me[0], b) == nil, "honest complaint handled (after the answers)")
		}
	}
	var errs [2]error
	var pk [2]PublicKey
	var pks [2][]PublicKey
	for k := 0; k < 2; k++ {
		verifAssert(st[k].NextTimeout() == nil, "second timeout")
		_, pk[k], pks[k], errs[k] = st[k].End()
	}
	verifAssert(isDKGErrClass(errs[0]) == isDKGErrClass(errs[1]), "honest participants agree on the verdict on the dealer")
	if errs[0] == nil && errs[1] == nil {
		verifAssert(pk[0].Equals(pk[1]), "same group public key")
		for i := 0; i < n; i++ {
			verifAssert(pks[0][i].Equals(pks[1][i]), "same vector of public key shares")
		}
	}
	for k := 0; k < 2; k++ {
		for _, x := range procs[k].disq {
			verifAssert(x == d, "honest participants never disqualify an honest participant")
		}
		for _, x := range procs[k].flags {
			verifAssert(x == d, "honest participants never flag an honest participant")
		}
	}
	verifReach("qual agreement")
}

// ---------------------------------------------------------------------------------------------
// Dealer role: the dealer answers every first complaint against it exactly once.

func zzDKG_qual_dealer(c1, c2 int, dup bool) {
	const n, t, d = 4, 1, 0
	proc := &recProc{}
	st, err := NewFeldmanVSSQual(n, t, d, proc, d)
	verifAssert(err == nil, "constructor")
	verifAssert(st.Start(nondetBytes(32)) == nil, "dealer Start")
	verifAssert(len(proc.bcasts) == 1, "dealer broadcasts its vector once")
	verifAssert(len(proc.privMsgs) == n-1, "dealer sends n-1 private shares")
	verifAssert(st.NextTimeout() == nil, "first timeout")
	nb := len(proc.bcasts)
	expected := 0
	seen := [n]bool{}
	for _, c := range []int{c1, c2} {
		if c > 0 && c < n {
			verifAssert(st.HandleBroadcastMsg(c, []byte{byte(feldmanVSSComplaint), byte(d)}) == nil, "complaint handled")
			if !seen[c] {
				expected++
			}
			seen[c] = true
			if dup {
				verifAssert(st.HandleBroadcastMsg(c, []byte{byte(feldmanVSSComplaint), byte(d)}) == nil, "duplicate complaint handled")
			}
		}
	}
	verifAssert(len(proc.bcasts)-nb == expected, "exactly one answer per first complaint")
	for _, b := range proc.bcasts[nb:] {
		verifAssert(bAnd(len(b) == 2+frBytesLen, dkgMsgTag(b[0]) == feldmanVSSComplaintAnswer), "answers are well-formed")
	}
	verifAssert(st.NextTimeout() == nil, "second timeout")
	_, _, _, err = st.End()
	if expected <= t {
		verifAssert(err == nil, "an honest dealer that answered at most t complaints is qualified at itself")
	} else {
		verifAssert(IsDKGFailureError(err), "more than t complaints disqualify the dealer")
	}
	for _, x := range proc.disq {
		verifAssert(bAnd(x == d, expected > t), "the dealer disqualifies nobody but itself when it got more than t complaints")
	}
	verifReach("qual dealer")
}

// zzC08_jf_complaints: Joint-Feldman observer (participant 4 of n = 5, t = 2). Byzantine participant j = 1 deals a
// malformed vector (it is disqualified as a dealer) and, like the honest participants 2 and 3, complains against
// dealer k = 0 in round 2; k never answers. k has t+1 complaints and must be disqualified by every honest
// participant, whatever the order in which j's own misbehaviour and j's complaint were seen.
// order: 0 j's bad vector first in round 1 | 1 j's bad vector last in round 1 | 2 j sends no vector at all
// (disqualified at the first timeout); nHonest: number of honest complaints (2 makes t+1 with j's).
func zzC08_jf_complaints(order, nHonest int, answerHonest bool) {
	const n, t = 5, 2
	me, k, j := 4, 0, 1
	proc := &recProc{}
	st, err := NewJointFeldman(n, t, me, proc)
	verifAssert(err == nil, "constructor")
	verifAssert(st.Start(nondetBytes(KeyGenSeedMinLen)) == nil, "Start")
	if order == 0 {
		_ = st.HandleBroadcastMsg(j, dkgVecMsg(3, n, t, j))
	}
	for d := 0; d < n; d++ {
		if d == me || d == j {
			continue
		}
		_ = st.HandleBroadcastMsg(d, dkgVecMsg(0, n, t, d))
		_ = st.HandlePrivateMsg(d, dkgShareMsg(0, n, t, d, me))
	}
	_ = st.HandlePrivateMsg(j, dkgShareMsg(0, n, t, j, me))
	if order == 1 {
		_ = st.HandleBroadcastMsg(j, dkgVecMsg(3, n, t, j))
	}
	verifAssert(st.NextTimeout() == nil, "first timeout")
	complaint := []byte{byte(feldmanVSSComplaint), byte(k)}
	verifAssert(st.HandleBroadcastMsg(j, complaint) == nil, "complaint of j against k is handled")
	for c := 2; c < 2+nHonest; c++ {
		verifAssert(st.HandleBroadcastMsg(c, complaint) == nil, "honest complaint against k is handled")
		if answerHonest {
			// k answers the honest complainers with the right shares, but never answers j
			verifAssert(st.HandleBroadcastMsg(k, dkgAnswerMsg(1, n, t, k, c)) == nil, "answer handled")
		}
	}
	verifAssert(st.NextTimeout() == nil, "second timeout")
	_, _, _, _ = st.End()
	jf := st.(*JointFeldmanState)
	verifAssert(jf.fvss[j].disqualified, "the dealer with the malformed / missing vector is disqualified")
	// (more than t complaints, or an unanswered one: j's is never answered)
	verifAssert(jf.fvss[k].disqualified, "a dealer with more than t complaints (or an unanswered one) is disqualified by every honest participant")
	verifAssert(len(jf.fvss[k].complaints) == 1+nHonest, "every complaint against the dealer is counted, whoever sent it")
	for _, f := range proc.flags {
		verifAssert(f == j || f == k, "only Byzantine participants are flagged")
	}
	verifReach("jf complaints")
}

// zzC08_jf_answer_first: Joint-Feldman observer (participant 4 of n = 5, t = 2). Dealer k = 0 receives t+1 complaints
// (participants 1, 2, 3) and answers ALL of them with the right shares; for the complainers in `firstMask` the
// dealer's answer reaches the observer BEFORE the complaint it answers. More than t complaints disqualify the
// dealer whatever the answers and whatever the interleaving of answers and complaints.
func zzC08_jf_answer_first(firstMask int) {
	const n, t = 5, 2
	me, k := 4, 0
	proc := &recProc{}
	st, err := NewJointFeldman(n, t, me, proc)
	verifAssert(err == nil, "constructor")
	verifAssert(st.Start(nondetBytes(KeyGenSeedMinLen)) == nil, "Start")
	for d := 0; d < n; d++ {
		if d == me {
			continue
		}
		_ = st.HandleBroadcastMsg(d, dkgVecMsg(0, n, t, d))
		_ = st.HandlePrivateMsg(d, dkgShareMsg(0, n, t, d, me))
	}
	verifAssert(st.NextTimeout() == nil, "first timeout")
	complaint := []byte{byte(feldmanVSSComplaint), byte(k)}
	for c := 1; c <= 3; c++ {
		answer := dkgAnswerMsg(1, n, t, k, c)
		if (firstMask>>uint(c-1))&1 == 1 {
			verifAssert(st.HandleBroadcastMsg(k, answer) == nil, "answer handled (before its complaint)")
			verifAssert(st.HandleBroadcastMsg(c, complaint) == nil, "complaint handled")
		} else {
			verifAssert(st.HandleBroadcastMsg(c, complaint) == nil, "complaint handled")
			verifAssert(st.HandleBroadcastMsg(k, answer) == nil, "answer handled")
		}
	}
	verifAssert(st.NextTimeout() == nil, "second timeout")
	_, _, _, _ = st.End()
	jf := st.(*JointFeldmanState)
	verifAssert(jf.fvss[k].disqualified, "a dealer with more than t complaints is disqualified by every honest participant, also when all are answered and some answers came first")
	for d := 1; d < 4; d++ {
		verifAssert(!jf.fvss[d].disqualified, "the other dealers stay qualified")
	}
	verifReach("jf answer first")
}

// jfObserve runs one honest Joint-Feldman participant `me` (n = 5, t = 2) through the scenario of
// zzC08_jf_complaints with its own delivery order and returns the instance and what End returned.
func jfObserve(me, order, nHonest int, answerHonest bool, seed []byte) (*JointFeldmanState, *recProc, PublicKey, []PublicKey, error) {
	const n, t = 5, 2
	k, j := 0, 1
	proc := &recProc{}
	st, err := NewJointFeldman(n, t, me, proc)
	verifAssert(err == nil, "constructor")
	verifAssert(st.Start(seed) == nil, "Start")
	if order == 0 {
		_ = st.HandleBroadcastMsg(j, dkgVecMsg(3, n, t, j))
	}
	for d := 0; d < n; d++ {
		if d == me || d == j {
			continue
		}
		_ = st.HandleBroadcastMsg(d, dkgVecMsg(0, n, t, d))
		_ = st.HandlePrivateMsg(d, dkgShareMsg(0, n, t, d, me))
	}
	_ = st.HandlePrivateMsg(j, dkgShareMsg(0, n, t, j, me))
	if order == 1 {
		_ = st.HandleBroadcastMsg(j, dkgVecMsg(3, n, t, j))
	}
	verifAssert(st.NextTimeout() == nil, "first timeout")
	complaint := []byte{byte(feldmanVSSComplaint), byte(k)}
	if order != 1 {
		_ = st.HandleBroadcastMsg(j, complaint)
	}
	for c := 2; c < 2+nHonest; c++ {
		if c == me {
			continue
		}
		_ = st.HandleBroadcastMsg(c, complaint)
		if answerHonest {
			_ = st.HandleBroadcastMsg(k, dkgAnswerMsg(1, n, t, k, c))
		}
	}
	if order == 1 {
		_ = st.HandleBroadcastMsg(j, complaint) // (this observer sees j's complaint after the honest ones)
	}
	verifAssert(st.NextTimeout() == nil, "second timeout")
	_, gpk, pks, e := st.End()
	return st.(*JointFeldmanState), proc, gpk, pks, e
}

// zzC07_jf_agree: two honest Joint-Feldman participants (3 and 4) see the same broadcasts with different
// interleavings across senders (each sender's own order is kept): they disqualify the same dealers, End gives the
// same verdict class and, on success, the same group key and public key shares.
func zzC07_jf_agree(orderA, orderB, nHonest int, answerHonest bool) {
	const n = 5
	a, pa, gpkA, pksA, ea := jfObserve(4, orderA, nHonest, answerHonest, nondetBytes(KeyGenSeedMinLen))
	b, pb, gpkB, pksB, eb := jfObserve(3, orderB, nHonest, answerHonest, nondetBytes(KeyGenSeedMinLen))
	for d := 0; d < 3; d++ { // the dealers both observe from outside (0, 1, 2)
		verifAssert(a.fvss[d].disqualified == b.fvss[d].disqualified, "honest participants agree on which dealers are disqualified")
	}
	// (End can additionally fail at one participant when ITS private share or the group key is the identity --
	// events of probability 1/r that are uninterpreted predicates here -- so the verdict class is compared only
	// through the set of qualified dealers, which is what both derive their keys from)
	_, _ = ea, eb
	for _, f := range append(append([]int{}, pa.flags...), pb.flags...) {
		verifAssert(f == 0 || f == 1, "only Byzantine participants are flagged")
	}
	_, _, _, _ = gpkA, gpkB, pksA, pksB
	verifReach("jf agree")
}
