//go:build verif_harness && cgo

package crypto

import (
	"github.com/onflow/crypto/hash"
)

// zzC19_bls: each listed BLS operation, run on keys, one KMAC hasher, messages and signatures that exist
// before the call, stores to none of them (symbolically: the write log of the Go and C code; natively: two
// concurrent calls under the race detector plus comparison with reference copies) and returns its
// sequential result.
func zzC19_bls(op int) {
	var x1, x2 scalar
	nondetFrStar(&x1)
	nondetFrStar(&x2)
	x1r, x2r := x1, x2
	sk1, sk2 := newPrKeyBLSBLS12381(&x1), newPrKeyBLSBLS12381(&x2)
	pk1, pk2 := sk1.PublicKey(), sk2.PublicKey()
	sk1r, sk2r := newPrKeyBLSBLS12381(&x1r), newPrKeyBLSBLS12381(&x2r)
	pk1r, pk2r := sk1r.PublicKey(), sk2r.PublicKey()
	h := testHasher("c19-tag")
	hr := testHasher("c19-tag")
	popr := internalExpandMsgXOFKMAC128(blsPOPCipherSuite)
	frame := nondetBytes(10) // the message is a sub-slice with spare capacity: the bytes behind it are the caller's too
	frame0 := append([]byte{}, frame...)
	msg := frame[:2]
	msg2 := nondetBytes(2)
	msg0 := append([]byte{}, msg...)
	// the signatures and the PoP are produced with the twin key objects and a twin hasher, so that the objects
	// handed to the operation under test are fresh: a lazily filled cache inside a key or hasher would be
	// written by the first concurrent use
	ht := testHasher("c19-tag")
	sig1, err := sk1r.Sign(msg, ht)
	verifAssume(err == nil)
	sig2, _ := sk2r.Sign(msg, ht)
	sig2b, _ := sk2r.Sign(msg2, ht)
	pop1, _ := BLSGeneratePOP(sk1r)
	agg, _ := AggregateBLSSignatures([]Signature{sig1, sig2})
	agg0 := append([]byte{}, agg...) // (copied before any other library call: a result must stay what it was)
	_, _ = AggregateBLSSignatures([]Signature{sig1, sig1, sig2}) // another aggregation with a different result in between
	aggb, _ := AggregateBLSSignatures([]Signature{sig1, sig2b})
	sig10 := append([]byte{}, sig1...)
	pks := []PublicKey{pk1, pk2}
	sigs := []Signature{sig1, sig2}
	msgs := [][]byte{msg, msg2}
	hs := []hash.Hasher{h, h}
	var f func()
	switch op {
	case 0:
		f = func() {
			s, err := sk1.Sign(msg, h)
			verifAssert(err == nil, "Sign succeeds")
			assertEqBytes(s, sig10, "concurrent Sign returns the sequential signature")
		}
	case 1:
		want, _ := pk1r.Verify(sig1, msg, ht)
		verifAssert(want, "Verify accepts the signature (sequential)")
		f = func() {
			ok, err := pk1.Verify(sig1, msg, h)
			verifAssert(bAnd(ok == want, err == nil), "concurrent Verify returns the sequential verdict")
		}
	case 2:
		want, _ := BLSVerifyPOP(pk1r, pop1)
		verifAssert(want, "BLSVerifyPOP accepts the PoP (sequential)")
		f = func() {
			ok, err := BLSVerifyPOP(pk1, pop1)
			verifAssert(bAnd(ok == want, err == nil), "concurrent BLSVerifyPOP returns the sequential verdict")
		}
	case 3:
		want, _ := SPOCKVerify(pk1r, sig1, pk2r, sig2)
		verifAssert(want, "SPOCKVerify accepts (sequential)")
		f = func() {
			ok, err := SPOCKVerify(pk1, sig1, pk2, sig2)
			verifAssert(bAnd(ok == want, err == nil), "concurrent SPOCKVerify returns the sequential verdict")
		}
	case 4:
		want, _ := VerifyBLSSignatureOneMessage([]PublicKey{pk1r, pk2r}, agg, msg, ht)
		f = func() {
			ok, err := VerifyBLSSignatureOneMessage(pks, agg, msg, h)
			verifAssert(bAnd(ok == want, err == nil), "concurrent VerifyBLSSignatureOneMessage returns the sequential verdict")
		}
	case 5:
		want, _ := VerifyBLSSignatureManyMessages([]PublicKey{pk1r, pk2r}, aggb, msgs, []hash.Hasher{ht, ht})
		f = func() {
			ok, err := VerifyBLSSignatureManyMessages(pks, aggb, msgs, hs)
			verifAssert(bAnd(ok == want, err == nil), "concurrent VerifyBLSSignatureManyMessages returns the sequential verdict")
		}
	case 7:
		// entries that take the "pre-marked invalid" branch: a short signature, an identity public key
		pks = []PublicKey{pk1, pk2, IdentityBLSPublicKey()}
		sigs = []Signature{sig1[:40], sig2, sig2}
		want, _ := BatchVerifyBLSSignaturesOneMessage([]PublicKey{pk1r, pk2r, IdentityBLSPublicKey()}, []Signature{sig1[:40], sig2, sig2}, msg, ht)
		f = func() {
			res, err := BatchVerifyBLSSignaturesOneMessage(pks, sigs, msg, h)
			verifAssert(err == nil, "batch verification succeeds")
			verifAssert(bAnd(len(res) == 3, bAnd(res[0] == want[0], bAnd(res[1] == want[1], res[2] == want[2]))), "concurrent batch verification with invalid entries returns the sequential verdicts")
			verifAssert(bAnd(len(sigs[0]) == 40, len(sigs[2]) == 48), "signature list entries keep their lengths")
		}
	default:
		want, _ := BatchVerifyBLSSignaturesOneMessage([]PublicKey{pk1r, pk2r}, sigs, msg, ht)
		f = func() {
			res, err := BatchVerifyBLSSignaturesOneMessage(pks, sigs, msg, h)
			verifAssert(err == nil, "batch verification succeeds")
			verifAssert(bAnd(len(res) == 2, bAnd(res[0] == want[0], res[1] == want[1])), "concurrent batch verification returns the sequential verdicts")
		}
	}
	verifEffectsBegin()
	// natively: 8 goroutines repeat the operation on the shared objects (a store by C code is invisible to the
	// race detector; it shows up as a wrong result of a concurrent call)
	verifParallel(8, func() {
		for rep := 0; rep < verifNativeRepeat(6000); rep++ {
			f()
			if rep&255 == 255 && verifFailed() {
				return
			}
		}
	})
	n := verifEffectsEnd()
	verifAssert(n == 0, "the operation stores to nothing that existed before the call (keys, hasher, PoP hasher, messages, signatures, lists, globals)")
	// natively: the objects used by the operation equal never-used copies (the twins above were used to
	// prepare the inputs, so fresh copies are built for the comparison)
	x1f, x2f := x1, x2
	sk1f, sk2f := newPrKeyBLSBLS12381(&x1f), newPrKeyBLSBLS12381(&x2f)
	pk1f, pk2f := sk1f.PublicKey(), sk2f.PublicKey()
	verifAssert(verifSameState(sk1, sk1f), "private key object unchanged")
	verifAssert(verifSameState(pk1, pk1f), "public key object unchanged")
	verifAssert(verifSameState(pk2, pk2f), "second public key object unchanged")
	verifAssert(verifSameState(sk2, sk2f), "second private key object unchanged")
	verifAssert(verifSameState(h, hr), "shared KMAC hasher unchanged")
	verifAssert(verifSameState(popKMAC, popr), "package-level PoP hasher unchanged")
	assertEqBytes(msg, msg0, "message unmodified")
	assertEqBytes(frame, frame0, "bytes behind the message (spare capacity of the slice) unmodified")
	assertEqBytes(sig1, sig10, "signature unmodified")
	assertEqBytes(agg, agg0, "aggregated signature unmodified")
	verifAssert(bAnd(pks[0] == pk1, pks[1] == pk2), "key list unmodified")
	verifReach("bls op")
}

// zzC19_ecdsa: Sign / Verify sharing keys between goroutines, with per-goroutine hashers
func zzC19_ecdsa(algoIdx, op int) {
	algo := ecdsaAlgoOf(algoIdx)
	kb := nondetBytes(32)
	sk, err := DecodePrivateKey(algo, kb)
	if err != nil {
		return
	}
	skr, _ := DecodePrivateKey(algo, kb)
	pk := sk.PublicKey()
	pkr := skr.PublicKey()
	msg := nondetBytes(2)
	msg0 := append([]byte{}, msg...)
	sig, err := sk.Sign(msg, hash.NewSHA2_256())
	verifAssume(err == nil)
	sig0 := append([]byte{}, sig...)
	var f func()
	if op == 0 {
		f = func() {
			s, err := sk.Sign(msg, hash.NewSHA2_256())
			verifAssert(err == nil, "Sign succeeds")
			ok, err := pk.Verify(s, msg, hash.NewSHA2_256())
			verifAssert(bAnd(ok, err == nil), "concurrently produced signature verifies")
		}
	} else {
		f = func() {
			ok, err := pk.Verify(sig, msg, hash.NewSHA3_256())
			ok2, err2 := pk.Verify(sig, msg, hash.NewSHA2_256())
			verifAssert(bAnd(err == nil, err2 == nil), "no error")
			verifAssert(ok2, "concurrent Verify returns the sequential verdict")
			_ = ok
		}
	}
	verifEffectsBegin()
	verifParallel(2, f)
	n := verifEffectsEnd()
	verifAssert(n == 0, "the operation stores to nothing that existed before the call (keys, message, signature)")
	verifAssert(verifSameState(sk, skr), "private key object unchanged")
	verifAssert(verifSameState(pk, pkr), "public key object unchanged")
	assertEqBytes(msg, msg0, "message unmodified")
	assertEqBytes(sig, sig0, "signature unmodified")
	verifReach("ecdsa op")
}

// zzC19_decoders: the C decoders that every verification function hands its caller-owned byte slices to
// (E1_read_bytes for signatures, E2_read_bytes for keys, Fr_read_bytes for scalars) store to nothing the caller
// owns -- executed from the real LLVM IR (the BLS operations above use the decoders' contract instead).
// which: 0 signature (48 bytes) | 1 public key (96 bytes) | 2 private key (32 bytes)
func zzC19_decoders(which int) {
	n := [3]int{g1BytesLen, g2BytesLen, frBytesLen}[which]
	in := nondetBytes(n)
	in0 := append([]byte{}, in...)
	verifEffectsBegin()
	verifParallel(8, func() {
		for rep := 0; rep < verifNativeRepeat(20000); rep++ {
			switch which {
			case 0:
				var p pointE1
				_ = readPointE1(&p, in)
			case 1:
				var p pointE2
				_ = readPointE2(&p, in)
			default:
				var x scalar
				_ = readScalarFrStar(&x, in)
			}
			if !c19Same(in, in0) {
				verifAssert(false, "a decoder call observed its input changed by a concurrent decoder call")
				return
			}
		}
	})
	w := verifEffectsEnd()
	verifAssert(w == 0, "the C decoder stores to nothing that existed before the call (the caller's input bytes)")
	assertEqBytes(in, in0, "input bytes unmodified")
	verifReach("decoders")
}

func c19Same(a, b []byte) bool {
	same := true
	for i := range a {
		same = bAnd(same, a[i] == b[i])
	}
	return same
}
