//go:build verif_harness && cgo

package crypto

// Contract lemmas for the DKG layer: the DKG state-machine checks (C07, C08, C10) run the handlers over
// uninterpreted versions of the dkg_core.c routines; these harnesses run the REAL routines under the algebraic
// group model and prove the contract the uninterpreted versions assume.

var g2ComplementSeed = []byte("verif-seed-for-a-point-outside-G2-0123456789abcdef0123456789abcdef0123456789abcdef0123456789abcdef0123456789" +
	"0123456789abcdef0123456789abcdef0123456789abcdef0123456789abcdef0123456789abcdef0123456789abcdef")

// g2EntryBytes: the 96-byte encoding of c*g2 (kind 0), c*g2 + T (kind 1), -(c*g2 + T) (kind 2, through the
// sort bit of the compressed encoding), the identity (kind 3); T is a fixed point of E2 outside G2.
func g2EntryBytes(c *scalar, kind int) []byte {
	var p pointE2
	generatorScalarMultG2(&p, c)
	if kind == 1 || kind == 2 {
		var T pointE2
		unsafeMapToG2Complement(&T, g2ComplementSeed)
		addE2(&p, &p, &T)
	}
	b := make([]byte, g2BytesLen)
	if kind == 3 {
		var z scalar
		generatorScalarMultG2(&p, &z)
	}
	writePointE2(b, &p)
	if kind == 2 {
		b[0] ^= 0x20
	}
	return b
}

// zzDKG_lemma_vector: readVerifVector accepts a vector of n encodings exactly when EVERY entry is a point of G2,
// also when the parts outside G2 cancel in the sum; accepted vectors decode to the encoded points.
// kinds: base-4 digits, one per entry.
func zzDKG_lemma_vector(n, kinds int) {
	src := make([]byte, 0, n*g2BytesLen)
	cs := make([]scalar, n)
	allIn := true
	for i := 0; i < n; i++ {
		k := (kinds >> (2 * i)) & 3
		nondetFr(&cs[i])
		src = append(src, g2EntryBytes(&cs[i], k)...)
		if k == 1 || k == 2 {
			allIn = false
		}
	}
	A := make([]pointE2, n)
	err := readVerifVector(A, src)
	verifAssert((err == nil) == allIn, "a verification vector is accepted exactly when every entry is in G2")
	if err == nil {
		for i := 0; i < n; i++ {
			k := (kinds >> (2 * i)) & 3
			var e pointE2
			if k == 3 {
				var z scalar
				generatorScalarMultG2(&e, &z)
			} else {
				generatorScalarMultG2(&e, &cs[i])
			}
			verifAssert(A[i].equals(&e), "accepted entries decode to the encoded points, in order")
		}
		out := make([]byte, n*g2BytesLen)
		writeVerifVector(out, A)
		for i := range out {
			verifAssert(out[i] == src[i], "re-encoding an accepted vector gives the input bytes")
		}
	} else {
		verifAssert(IsInvalidInputsError(err), "rejections are invalid-input errors")
	}
	verifReach("vector lemma")
}

// zzDKG_lemma_algebra: the share/vector algebra for threshold t (t+1 coefficients) and n participants:
// for the honest dealing a_0..a_t, A_j = a_j*g2, the share P(i+1) written by frPolynomialImage matches the public
// key y_i computed by E2_polynomial_images from A (verifyShare's test G2_check_log), a share shifted by delta != 0
// does not, and y_i = P(i+1)*g2 returned by frPolynomialImage itself.
func zzDKG_lemma_algebra(n, t int) {
	a := make([]scalar, t+1)
	A := make([]pointE2, t+1)
	for j := range a {
		nondetFr(&a[j])
		generatorScalarMultG2(&A[j], &a[j])
	}
	st := &feldmanVSSstate{dkgCommon: &dkgCommon{size: n, threshold: t}}
	st.vA = A
	st.y = make([]pointE2, n)
	st.computePublicKeys()
	var other scalar
	nondetFrStar(&other)
	for i := 0; i < n; i++ {
		buf := make([]byte, frBytesLen)
		var yi pointE2
		frPolynomialImage(buf, a, index(i+1), &yi)
		verifAssert(yi.equals(&st.y[i]), "P(i+1)*g2 from the dealer side equals Q(i+1) computed from the verification vector")
		st.myIndex = index(i)
		if readScalarFrStar(&st.x, buf) == nil { // (a zero share is rejected by the protocol)
			verifAssert(st.verifyShare(), "an honest share verifies against the honest vector")
			honest := st.x
			st.x = other
			verifAssert(st.verifyShare() == other.equals(&honest), "any other share value does not verify")
		}
	}
	// the group public key is A_0
	verifAssert(st.vA[0].equals(&A[0]), "A_0 is the group key")
	verifReach("algebra lemma")
}
