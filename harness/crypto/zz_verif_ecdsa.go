//go:build verif_harness

package crypto

import (
	"crypto/ecdsa"
	"crypto/elliptic"
	"crypto/rand"
	"crypto/hkdf"
	"crypto/sha256"
	"math/big"
	"github.com/btcsuite/btcd/btcec/v2"
	"github.com/onflow/crypto/hash"
)

func ecdsaAlgoOf(i int) SigningAlgorithm {
	if i == 0 {
		return ECDSAP256
	}
	return ECDSASecp256k1
}

// refECDSAVerify: the library relation on (public key, 32-byte truncated hash, r, s) -- natively
// crypto/ecdsa.Verify, symbolically the same uninterpreted relation with the 1 <= r,s < n range check.
func refECDSAVerify(pub *ecdsa.PublicKey, z []byte, r, s []byte) bool {
	return ecdsa.Verify(pub, z, new(big.Int).SetBytes(r), new(big.Int).SetBytes(s))
}

// refOnCurve: y^2 = x^3 + a*x + b mod p for the named curve (independent of the library natively).
func refOnCurve(algo int, x, y []byte) bool {
	var p, a, b *big.Int
	if algo == 0 {
		p, _ = new(big.Int).SetString("ffffffff00000001000000000000000000000000ffffffffffffffffffffffff", 16)
		a = new(big.Int).Sub(p, big.NewInt(3))
		b, _ = new(big.Int).SetString("5ac635d8aa3a93e7b3ebbd55769886bc651d06b0cc53b0f63bce3c3e27d2604b", 16)
	} else {
		p, _ = new(big.Int).SetString("fffffffffffffffffffffffffffffffffffffffffffffffffffffffefffffc2f", 16)
		a = big.NewInt(0)
		b = big.NewInt(7)
	}
	X, Y := new(big.Int).SetBytes(x), new(big.Int).SetBytes(y)
	l := new(big.Int).Mul(Y, Y)
	l.Mod(l, p)
	r := new(big.Int).Mul(X, X)
	r.Mul(r, X)
	r.Add(r, new(big.Int).Mul(a, X))
	r.Add(r, b)
	r.Mod(r, p)
	return l.Cmp(r) == 0
}

func refHKDF(secret, salt []byte, info string, L int) []byte {
	out, err := hkdf.Key(sha256.New, secret, salt, info, L)
	if err != nil {
		panic(err)
	}
	return out
}

var ecP = [2][32]byte{
	{0xff, 0xff, 0xff, 0xff, 0x00, 0x00, 0x00, 0x01, 0x00, 0x00, 0x00, 0x00, 0x00, 0x00, 0x00, 0x00, 0x00, 0x00, 0x00, 0x00, 0xff, 0xff, 0xff, 0xff, 0xff, 0xff, 0xff, 0xff, 0xff, 0xff, 0xff, 0xff},
	{0xff, 0xff, 0xff, 0xff, 0xff, 0xff, 0xff, 0xff, 0xff, 0xff, 0xff, 0xff, 0xff, 0xff, 0xff, 0xff, 0xff, 0xff, 0xff, 0xff, 0xff, 0xff, 0xff, 0xff, 0xff, 0xff, 0xff, 0xfe, 0xff, 0xff, 0xfc, 0x2f}}
var ecN = [2][32]byte{
	{0xff, 0xff, 0xff, 0xff, 0x00, 0x00, 0x00, 0x00, 0xff, 0xff, 0xff, 0xff, 0xff, 0xff, 0xff, 0xff, 0xbc, 0xe6, 0xfa, 0xad, 0xa7, 0x17, 0x9e, 0x84, 0xf3, 0xb9, 0xca, 0xc2, 0xfc, 0x63, 0x25, 0x51},
	{0xff, 0xff, 0xff, 0xff, 0xff, 0xff, 0xff, 0xff, 0xff, 0xff, 0xff, 0xff, 0xff, 0xff, 0xff, 0xfe, 0xba, 0xae, 0xdc, 0xe6, 0xaf, 0x48, 0xa0, 0x3b, 0xbf, 0xd2, 0x5e, 0x8c, 0xd0, 0x36, 0x41, 0x41}}

// lessThan: big-endian b < m (eager booleans)
func lessThanBE(b []byte, m []byte) bool {
	lt, eq := false, true
	for i := range b {
		lt = bOr(lt, bAnd(eq, b[i] < m[i]))
		eq = bAnd(eq, b[i] == m[i])
	}
	return lt
}
func nonZeroBE(b []byte) bool {
	nz := false
	for i := range b {
		nz = bOr(nz, b[i] != 0)
	}
	return nz
}

func ecdsaHasher(kind int) hash.Hasher {
	switch kind {
	case 0:
		return hash.NewSHA2_256()
	case 1:
		return hash.NewSHA3_256()
	case 2:
		return hash.NewSHA2_384()
	case 3:
		h, _ := hash.NewKMAC_128([]byte("0123456789abcdef"), nil, 40)
		return h
	case 4:
		return hash.NewKeccak_256()
	default:
		h, _ := hash.NewKMAC_128([]byte("0123456789abcdef"), nil, 31)
		return h
	}
}

// zzC11_verify: Verify(sig) is true exactly when sig is 64 bytes r||s with 1 <= r,s < n satisfying the
// ECDSA relation for the leftmost 256 bits of the hasher output; SignatureFormatCheck false implies false.
func zzC11_verify(algoIdx, sigLen, hasherKind int) {
	algo := ecdsaAlgoOf(algoIdx)
	sk, err := DecodePrivateKey(algo, nondetBytes(32))
	if err != nil {
		return
	}
	pk := sk.PublicKey()
	msg := nondetBytes(2)
	h := ecdsaHasher(hasherKind)
	sig := nondetBytes(sigLen)
	// the range predicate on the bytes of the model themselves (before any native instance construction below)
	rawFmt, err := SignatureFormatCheck(algo, sig)
	verifAssert(err == nil, "format check supports ECDSA")
	if sigLen == 64 {
		rawRange := bAnd(bAnd(nonZeroBE(sig[:32]), nonZeroBE(sig[32:])), bAnd(lessThanBE(sig[:32], ecN[algoIdx][:]), lessThanBE(sig[32:], ecN[algoIdx][:])))
		verifAssert(rawFmt == rawRange, "SignatureFormatCheck = (1 <= r, s < n)")
	}
	// the model's claim "the reference accepts this signature" is realised natively by a signature made with the
	// reference (crypto/ecdsa on the leftmost 256 bits of the digest), so that counterexamples in which the
	// library rejects a signature of the reference replay
	refValid := nondetBool()
	if verifNative() && refValid && sigLen == 64 {
		d := ecdsaHasher(hasherKind).ComputeHash(msg)
		// keep the model's s (its bit pattern may be what matters, e.g. leading zero bytes): choose a nonce k, take
		// r = x(k*G) mod n and solve for the private key d = (s*k - z) / r; fall back to an ordinary reference
		// signature when the model's s is unusable
		built := false
		var curve elliptic.Curve = elliptic.P256()
		if algoIdx == 1 {
			curve = btcec.S256()
		}
		n := curve.Params().N
		sv := new(big.Int).SetBytes(sig[32:])
		if sv.Sign() != 0 && sv.Cmp(n) < 0 {
			k := big.NewInt(0x5eed1234567)
			x1, _ := curve.ScalarBaseMult(k.Bytes())
			r := new(big.Int).Mod(x1, n)
			z := new(big.Int).SetBytes(d[:32])
			dk := new(big.Int).Mul(sv, k)
			dk.Sub(dk, z)
			dk.Mul(dk, new(big.Int).ModInverse(r, n))
			dk.Mod(dk, n)
			if r.Sign() != 0 && dk.Sign() != 0 {
				kb := make([]byte, 32)
				dk.FillBytes(kb)
				if sk2, e := DecodePrivateKey(algo, kb); e == nil {
					sk, pk = sk2, sk2.PublicKey()
					r.FillBytes(sig[:32])
					built = true
				}
			}
		}
		if !built {
			r, s2, e := ecdsa.Sign(rand.Reader, sk.(*prKeyECDSA).goPrKey, d[:32])
			if e == nil {
				r.FillBytes(sig[:32])
				s2.FillBytes(sig[32:])
			}
		}
	}
	sig0 := append([]byte{}, sig...)
	ok, err := pk.Verify(sig, msg, h)
	verifAssert(err == nil, "no error with a valid hasher")
	assertEqBytes(sig, sig0, "signature argument unmodified")
	fmtOK, err := SignatureFormatCheck(algo, sig)
	verifAssert(err == nil, "format check supports ECDSA")
	if sigLen != 64 {
		verifAssert(bAnd(!ok, !fmtOK), "signatures that are not 64 bytes are rejected")
		verifReach("verify wrong length")
		return
	}
	// (the range predicate first: its counterexamples replay with the bytes of the model, whereas a counterexample of
	// the relation needs a constructed signature, which cannot keep a particular r)
	inRange := bAnd(bAnd(nonZeroBE(sig0[:32]), nonZeroBE(sig0[32:])), bAnd(lessThanBE(sig0[:32], ecN[algoIdx][:]), lessThanBE(sig0[32:], ecN[algoIdx][:])))
	verifAssert(fmtOK == inRange, "SignatureFormatCheck = (1 <= r, s < n)")
	verifAssert(bOr(fmtOK, !ok), "SignatureFormatCheck false implies Verify false")
	digest := ecdsaHasher(hasherKind).ComputeHash(msg)
	want := refECDSAVerify(pk.(*pubKeyECDSA).goPubKey, digest[:32], sig0[:32], sig0[32:])
	verifAssume(refValid == want)
	verifAssert(ok == want, "Verify = ECDSA relation on (r = sig[:32], s = sig[32:], leftmost 256 bits of the digest)")
	verifReach("verify")
}

// zzC11_sign: every signature returned by Sign is 64 bytes, passes the format check and verifies; a
// flipped message does not change the glue (the relation decides).
func zzC11_sign(algoIdx, hasherKind int) {
	algo := ecdsaAlgoOf(algoIdx)
	sk, err := DecodePrivateKey(algo, nondetBytes(32))
	if err != nil {
		return
	}
	msg := nondetBytes(2)
	h := ecdsaHasher(hasherKind)
	// natively the library's (r, s) are random: the replay repeats the signing so that short r / s occur
	for it := 0; it < verifNativeRepeat(6000) && !verifFailed(); it++ {
		sig, err := sk.Sign(msg, h)
		verifAssert(err == nil, "Sign succeeds")
		verifAssert(len(sig) == 64, "signature is 64 bytes")
		fmtOK, _ := SignatureFormatCheck(algo, sig)
		verifAssert(fmtOK, "Sign output passes the format check")
		ok, err := sk.PublicKey().Verify(sig, msg, h)
		verifAssert(bAnd(ok, err == nil), "Sign output verifies")
	}
	verifReach("sign")
}

func zzC11_errors(algoIdx int) {
	algo := ecdsaAlgoOf(algoIdx)
	sk, err := DecodePrivateKey(algo, nondetBytes(32))
	if err != nil {
		return
	}
	msg := nondetBytes(2)
	sig := nondetBytes(64)
	_, err = sk.Sign(msg, nil)
	verifAssert(IsNilHasherError(err), "Sign: nil hasher")
	ok, err := sk.PublicKey().Verify(sig, msg, nil)
	verifAssert(bAnd(!ok, IsNilHasherError(err)), "Verify: nil hasher")
	_, err = sk.Sign(msg, ecdsaHasher(5))
	verifAssert(IsInvalidHasherSizeError(err), "Sign: 31-byte hasher")
	ok, err = sk.PublicKey().Verify(sig, msg, ecdsaHasher(5))
	verifAssert(bAnd(!ok, IsInvalidHasherSizeError(err)), "Verify: 31-byte hasher")
	_, err = SignatureFormatCheck(BLSBLS12381, sig)
	verifAssert(IsInvalidInputsError(err), "format check is only defined for ECDSA")
	verifReach("errors")
}

// zzC11_changes: the key object handed to the library is the key the user sees (same curve as the
// algorithm, same coordinates as Encode()), so that a change of key or curve changes the relation's
// arguments; the twin (r, n-s) is a property of the relation, not of the glue.
func zzC11_changes(algoIdx int) {
	algo := ecdsaAlgoOf(algoIdx)
	sk, err := DecodePrivateKey(algo, nondetBytes(32))
	if err != nil {
		return
	}
	pk := sk.PublicKey()
	verifAssert(pk.Algorithm() == algo, "public key carries the algorithm of the private key")
	verifAssert(sk.Algorithm() == algo, "private key carries its algorithm")
	gp := pk.(*pubKeyECDSA).goPubKey
	if algoIdx == 0 {
		verifAssert(gp.Curve == elliptic.P256(), "ECDSA_P256 keys are on P-256")
	} else {
		verifAssert(gp.Curve == btcec.S256(), "ECDSA_secp256k1 keys are on secp256k1")
	}
	enc := pk.Encode()
	verifAssert(len(enc) == 64, "raw public key is 64 bytes")
	xb, yb := make([]byte, 32), make([]byte, 32)
	gp.X.FillBytes(xb)
	gp.Y.FillBytes(yb)
	assertEqBytes(enc[:32], xb, "Encode()[:32] is the X handed to the library")
	assertEqBytes(enc[32:], yb, "Encode()[32:] is the Y handed to the library")
	// verification under the decoded copy of the key is the same relation
	pk2, err := DecodePublicKey(algo, enc)
	verifAssert(err == nil, "own public key decodes")
	msg := nondetBytes(2)
	sig := nondetBytes(64)
	ok1, _ := pk.Verify(sig, msg, ecdsaHasher(0))
	ok2, _ := pk2.Verify(sig, msg, ecdsaHasher(0))
	verifAssert(ok1 == ok2, "decoded copy of a key verifies identically")
	// the other algorithm's decoder is not used: the same 32 bytes under the other curve give a different key object
	verifReach("changes")
}

// zzC11_overflow: a signature whose s is >= n is rejected by Verify and by the format check, for every key --
// in particular when s - n would be a valid scalar. Symbolically: arbitrary key and 64 bytes with s >= n.
// Natively (replay): a real instance is built, since honest signatures never have s < 2^256 - n: pick the nonce
// k and s' = 7, set r = x(k*G) mod n and solve d = (s'*k - z) / r mod n, so that (r, s') is a valid signature of
// the message under d; the signature under test is r || (s' + n).
func zzC11_overflow(algoIdx int) {
	algo := ecdsaAlgoOf(algoIdx)
	msg := []byte("overflow")
	h := hash.NewSHA2_256()
	var sk PrivateKey
	var sig []byte
	var err error
	if verifNative() {
		var curve elliptic.Curve = elliptic.P256()
		if algoIdx == 1 {
			curve = btcec.S256()
		}
		n := curve.Params().N
		k := new(big.Int).SetBytes(nondetBytes(16))
		k.Add(k, big.NewInt(12345))
		x1, _ := curve.ScalarBaseMult(k.Bytes())
		r := new(big.Int).Mod(x1, n)
		verifAssume(r.Sign() != 0)
		digest := ecdsaHasher(0).ComputeHash(msg)
		z := new(big.Int).SetBytes(digest[:32])
		sp := big.NewInt(7)
		d := new(big.Int).Mul(sp, k)
		d.Sub(d, z)
		d.Mul(d, new(big.Int).ModInverse(r, n))
		d.Mod(d, n)
		verifAssume(d.Sign() != 0)
		db := make([]byte, 32)
		d.FillBytes(db)
		sk, err = DecodePrivateKey(algo, db)
		verifAssume(err == nil)
		good := make([]byte, 64)
		r.FillBytes(good[:32])
		sp.FillBytes(good[32:])
		ok, _ := sk.PublicKey().Verify(good, msg, h)
		verifAssume(ok) // (r, s') really is a signature
		sig = make([]byte, 64)
		r.FillBytes(sig[:32])
		new(big.Int).Add(sp, n).FillBytes(sig[32:])
	} else {
		sk, err = DecodePrivateKey(algo, nondetBytes(32))
		if err != nil {
			return
		}
		sig = nondetBytes(64)
		verifAssume(!lessThanBE(sig[32:], ecN[algoIdx][:]))
	}
	ok, err := sk.PublicKey().Verify(sig, msg, h)
	verifAssert(bAnd(!ok, err == nil), "a signature with s >= n is rejected by Verify (also when s - n is a valid scalar)")
	fmtOK, _ := SignatureFormatCheck(algo, sig)
	verifAssert(!fmtOK, "and by SignatureFormatCheck")
	verifReach("overflow")
}

// ---- C05 (ECDSA part): decoders are validating and canonical

func zzC05_ecdsa_private(algoIdx, n int) {
	algo := ecdsaAlgoOf(algoIdx)
	b := nondetBytes(n)
	b0 := append([]byte{}, b...)
	sk, err := DecodePrivateKey(algo, b)
	want := false
	if n == 32 {
		want = bAnd(nonZeroBE(b0), lessThanBE(b0, ecN[algoIdx][:]))
	}
	if err != nil {
		verifAssert(IsInvalidInputsError(err), "rejection is an invalid-input error")
		verifAssert(!want, "scalars in [1, n-1] are accepted")
		verifReach("private rejected")
		return
	}
	verifAssert(want, "only 32-byte scalars in [1, n-1] are accepted")
	assertEqBytes(sk.Encode(), b0, "accepted private key re-encodes to exactly the input")
	verifAssert(sk.Equals(sk), "Equal to itself")
	pk1, pk2 := sk.PublicKey(), sk.PublicKey()
	verifAssert(pk1.Equals(pk2), "repeated PublicKey() calls return Equal keys")
	pkb := pk1.Encode()
	verifAssert(len(pkb) == 64, "public key is 64 bytes")
	pk3, err := DecodePublicKey(algo, pkb)
	verifAssert(err == nil, "the public key of a valid private key decodes")
	verifAssert(pk3.Equals(pk1), "and decodes to an Equal key")
	verifReach("private accepted")
}

func zzC05_ecdsa_public(algoIdx, n int, compressed bool) {
	algo := ecdsaAlgoOf(algoIdx)
	b := nondetBytes(n)
	b0 := append([]byte{}, b...)
	var pk PublicKey
	var err error
	if compressed {
		pk, err = DecodePublicKeyCompressed(algo, b)
	} else {
		pk, err = DecodePublicKey(algo, b)
	}
	assertEqBytes(b, b0, "input unmodified")
	if err == nil {
		for i := range b { // the key does not alias the caller's buffer
			b[i] ^= 0xa5
		}
	}
	if err != nil {
		verifAssert(IsInvalidInputsError(err), "rejection is an invalid-input error")
		if !compressed && n == 64 {
			ok := bAnd(bAnd(lessThanBE(b0[:32], ecP[algoIdx][:]), lessThanBE(b0[32:], ecP[algoIdx][:])), refOnCurve(algoIdx, b0[:32], b0[32:]))
			verifAssert(!ok, "on-curve points with reduced coordinates are accepted")
		}
		verifReach("public rejected")
		return
	}
	if compressed {
		verifAssert(n == 33, "only 33-byte strings are accepted")
		verifAssert(bOr(b0[0] == 2, b0[0] == 3), "compressed prefix is 02 or 03")
		verifAssert(lessThanBE(b0[1:], ecP[algoIdx][:]), "x is reduced")
		assertEqBytes(pk.EncodeCompressed(), b0, "accepted compressed key re-encodes to exactly the input")
		raw := pk.Encode()
		verifAssert(refOnCurve(algoIdx, raw[:32], raw[32:]), "decompressed point is on the curve")
	} else {
		verifAssert(n == 64, "only 64-byte strings are accepted")
		verifAssert(bAnd(lessThanBE(b0[:32], ecP[algoIdx][:]), lessThanBE(b0[32:], ecP[algoIdx][:])), "coordinates are reduced")
		verifAssert(refOnCurve(algoIdx, b0[:32], b0[32:]), "accepted point is on the curve")
		assertEqBytes(pk.Encode(), b0, "accepted raw key re-encodes to exactly the input")
		c := pk.EncodeCompressed()
		pk2, err := DecodePublicKeyCompressed(algo, c)
		verifAssert(err == nil, "compressed form of an accepted key decodes")
		verifAssert(pk2.Equals(pk), "to an Equal key")
	}
	verifReach("public accepted")
}

// ---- C12: key generation

func zzC12_ecdsa(algoIdx, seedLen int) {
	algo := ecdsaAlgoOf(algoIdx)
	seed := nondetBytes(seedLen)
	seed0 := append([]byte{}, seed...)
	sk, err := GeneratePrivateKey(algo, seed)
	if seedLen < 32 || seedLen > 256 { // (literal bounds: the documented values, not the library constants)
		verifAssert(bAnd(sk == nil, IsInvalidInputsError(err)), "seed lengths outside [32, 256] are rejected")
		verifReach("keygen rejected")
		return
	}
	verifAssert(err == nil, "valid seed lengths are accepted")
	assertEqBytes(seed, seed0, "seed unmodified")
	// documented derivation: okm = HKDF-SHA256(seed, salt = "", info = "", 48); d = OS2IP(okm) mod (n-1) + 1
	okm := refHKDF(seed0, []byte{}, "", 48)
	d := new(big.Int).SetBytes(okm)
	nm1 := new(big.Int).Sub(new(big.Int).SetBytes(ecN[algoIdx][:]), new(big.Int).SetInt64(1))
	d.Mod(d, nm1)
	d.Add(d, new(big.Int).SetInt64(1))
	want := make([]byte, 32)
	d.FillBytes(want)
	got := sk.Encode()
	assertEqBytes(got, want, "private key = OS2IP(HKDF(seed)) mod (n-1) + 1")
	verifAssert(bAnd(nonZeroBE(got), lessThanBE(got, ecN[algoIdx][:])), "generated key is in [1, n-1]")
	sk2, err := GeneratePrivateKey(algo, seed0)
	verifAssert(bAnd(err == nil, sk2.Equals(sk)), "generation is deterministic")
	dec, err := DecodePrivateKey(algo, got)
	verifAssert(err == nil, "the generated key decodes")
	verifAssert(dec.PublicKey().Equals(sk.PublicKey()), "public key of the generated key = public key of the decoded scalar")
	verifAssert(sk.PublicKey().Equals(sk.PublicKey()), "PublicKey() is cached consistently")
	verifReach("keygen ecdsa")
}

func assertEqBytes(got, want []byte, what string) {
	verifAssert(len(got) == len(want), what+" (length)")
	if len(got) != len(want) {
		return
	}
	for i := range got {
		verifAssert(got[i] == want[i], what)
	}
}
