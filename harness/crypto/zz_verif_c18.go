//go:build verif_harness && cgo

package crypto

import "unsafe"

// C18: linearizability of the stateful threshold-signature object. Logical threads run real API calls on one
// shared object; every schedule at the visible points is explored. The observed tuple of results must equal
// the tuple produced by SOME sequential order of the same calls (on a fresh object) that respects program
// order and the observed real-time order.

type c18Op struct {
	kind  int // 0 TrustedAdd, 1 VerifyAndAdd, 2 HasShare, 3 EnoughShares, 4 ThresholdSignature, 5 VerifyShare
	idx   int
	share int // 0..2: valid share of that signer, 3: malformed signature, 4: wrong length
}

type c18Res struct {
	a, b bool
	err  int // 0 nil, 1 invalid inputs, 2 duplicated signer, 3 not enough shares, 4 invalid signature, 5 other
	sig  int // 0 nil, 1 the group signature, 2 other bytes
	t0   int
	t1   int
}

type c18Env struct {
	pks    []PublicKey
	gpk    PublicKey
	msg    []byte
	shares [5]Signature
	group  Signature
}

func c18ErrClass(err error) int {
	switch {
	case err == nil:
		return 0
	case IsInvalidInputsError(err):
		return 1
	case IsDuplicatedSignerError(err):
		return 2
	case IsNotEnoughSharesError(err):
		return 3
	case IsInvalidSignatureError(err):
		return 4
	}
	return 5
}

func c18EqBytes(a, b []byte) bool {
	if len(a) != len(b) {
		return false
	}
	eq := true
	for i := range a {
		eq = bAnd(eq, a[i] == b[i])
	}
	return eq
}

func (e *c18Env) newObj() *blsThresholdSignatureInspector {
	ts, err := NewBLSThresholdSignatureInspector(e.gpk, e.pks, 1, e.msg, "c18-tag")
	verifAssume(err == nil)
	return ts
}

func (e *c18Env) do(ts *blsThresholdSignatureInspector, op c18Op) c18Res {
	var r c18Res
	var err error
	r.t0 = verifNow()
	switch op.kind {
	case 0:
		r.a, err = ts.TrustedAdd(op.idx, e.shares[op.share])
	case 1:
		r.a, r.b, err = ts.VerifyAndAdd(op.idx, e.shares[op.share])
	case 2:
		r.a, err = ts.HasShare(op.idx)
	case 3:
		r.a = ts.EnoughShares()
	case 4:
		var s Signature
		s, err = ts.ThresholdSignature()
		if s != nil {
			if c18EqBytes(s, e.group) {
				r.sig = 1
			} else {
				r.sig = 2
			}
		}
	default:
		r.a, err = ts.VerifyShare(op.idx, e.shares[op.share])
	}
	r.t1 = verifNow()
	r.err = c18ErrClass(err)
	return r
}

func c18Same(x, y c18Res) bool {
	return x.a == y.a && x.b == y.b && x.err == y.err && x.sig == y.sig
}

func c18DecodeOp(code int) c18Op {
	return c18Op{kind: code / 100, idx: (code/10)%10 - 1, share: code % 10}
}

// zzC18_lin: thread A runs ops a1 (and a2 if >= 0), thread B runs b1 (and b2 if >= 0), thread C (if c1 >= 0)
// runs c1; op code = kind*100 + (idx+1)*10 + share; `pre` (if >= 0) is an operation applied before the threads start.
func zzC18_lin(pre, a1, a2, b1, b2, c1 int) {
	seed := nondetBytes(KeyGenSeedMinLen)
	sks, pks, gpk, err := BLSThresholdKeyGen(3, 1, seed)
	verifAssume(err == nil)
	assumeNoZeroShare(pks, gpk)
	env := &c18Env{pks: pks, gpk: gpk, msg: nondetBytes(2)}
	h := testHasher("c18-tag")
	for i := 0; i < 3; i++ {
		env.shares[i], _ = sks[i].Sign(env.msg, h)
	}
	env.shares[3] = BLSInvalidSignature()
	env.shares[4] = env.shares[0][:SignatureLenBLSBLS12381-1]
	env.group, err = BLSReconstructThresholdSignature(3, 1, []Signature{env.shares[0], env.shares[1]}, []int{0, 1})
	verifAssume(err == nil)
	// the operations, in thread order
	var ops [5]c18Op
	var thr [5]int
	n := 0
	for _, c := range [][2]int{{a1, 0}, {a2, 0}, {b1, 1}, {b2, 1}, {c1, 2}} {
		if c[0] >= 0 {
			ops[n], thr[n] = c18DecodeOp(c[0]), c[1]
			n++
		}
	}
	// concurrent run
	ts := env.newObj()
	if pre >= 0 {
		env.do(ts, c18DecodeOp(pre))
	}
	// the mutable part of the object: every field from the share map on, except the lock itself (fields a change might
	// add after the lock included); buffers reachable from these fields are shared too (stores need the write lock)
	verifTrackShared(ts, unsafe.Offsetof(ts.shares), unsafe.Offsetof(ts.lock))
	if end := unsafe.Offsetof(ts.lock) + unsafe.Sizeof(ts.lock); end < unsafe.Sizeof(*ts) {
		verifTrackShared(ts, end, unsafe.Sizeof(*ts))
	}
	var res [5]c18Res
	body := func(t int) func() {
		return func() {
			for i := 0; i < n; i++ {
				if thr[i] == t {
					res[i] = env.do(ts, ops[i])
				}
			}
		}
	}
	if c1 >= 0 {
		verifThreads3(body(0), body(1), body(2))
	} else {
		verifThreads2(body(0), body(1))
	}
	verifAssert(verifUnguarded() == 0, "every access to the share map and the cached signature is made while holding the lock (no data race)")
	// invariants of the final state
	verifAssert(len(ts.shares) <= 2, "at most t+1 shares are retained")
	// linearizability: some sequential order explains the results
	found := false
	var perm [5]int
	var used [5]bool
	var rec func(k int)
	rec = func(k int) {
		if found {
			return
		}
		if k == n {
			seq := env.newObj()
			if pre >= 0 {
				env.do(seq, c18DecodeOp(pre))
			}
			ok := true
			for j := 0; j < n && ok; j++ {
				r := env.do(seq, ops[perm[j]])
				ok = c18Same(r, res[perm[j]])
			}
			if ok {
				found = true
			}
			return
		}
		for i := 0; i < n; i++ {
			if used[i] {
				continue
			}
			// program order and observed real-time order: i may come next only if no unused j must precede it
			okNext := true
			for j := 0; j < n; j++ {
				if j != i && !used[j] && ((thr[j] == thr[i] && j < i) || res[j].t1 < res[i].t0) {
					okNext = false
				}
			}
			if !okNext {
				continue
			}
			used[i], perm[k] = true, i
			rec(k + 1)
			used[i] = false
		}
	}
	rec(0)
	verifAssert(found, "the results of the concurrent calls are explained by a sequential order consistent with real-time order")
	verifReach("linearizable")
}
