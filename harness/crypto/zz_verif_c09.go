//go:build verif_harness && cgo

package crypto

import (
	"github.com/onflow/crypto/hash"
)

// C09 harnesses: exported entry points on arbitrary lengths / indices / enum values / list shapes. The
// executor reports every Go panic site and every out-of-bounds access of the Go and C code as a violation;
// the assertions below additionally pin the documented way of reporting invalid input.

func c09Hasher(kind int) hash.Hasher {
	switch kind {
	case 0:
		return testHasher("c09-tag")
	case 1:
		return nil
	case 2:
		h, _ := hash.NewKMAC_128([]byte("0123456789abcdef"), nil, 127)
		return h
	default:
		return hash.NewSHA3_256()
	}
}

// zzC09_bls_sign_verify: Sign / Verify / SPOCK / PoP entry points with arbitrary signature and message lengths and hashers
func zzC09_bls_sign_verify(sigLen, msgLen, hasherKind int) {
	var x scalar
	nondetFrStar(&x)
	sk := newPrKeyBLSBLS12381(&x)
	pk := sk.PublicKey()
	msg := nondetBytes(msgLen)
	sig := nondetBytes(sigLen)
	h := c09Hasher(hasherKind)
	s, err := sk.Sign(msg, h)
	if hasherKind == 0 {
		verifAssert(bAnd(err == nil, len(s) == SignatureLenBLSBLS12381), "Sign with a valid hasher")
	} else {
		verifAssert(bAnd(s == nil, bOr(IsNilHasherError(err), IsInvalidHasherSizeError(err))), "Sign reports a bad hasher with the typed errors")
	}
	ok, err := pk.Verify(sig, msg, h)
	if hasherKind == 0 {
		verifAssert(err == nil, "Verify with a valid hasher returns no error")
		if sigLen != SignatureLenBLSBLS12381 {
			verifAssert(!ok, "wrong-length signature is a false verdict")
		}
	} else {
		verifAssert(bAnd(!ok, bOr(IsNilHasherError(err), IsInvalidHasherSizeError(err))), "Verify reports a bad hasher with the typed errors")
	}
	_, _ = SPOCKProve(sk, msg, h)
	ok, _ = SPOCKVerifyAgainstData(pk, sig, msg, h)
	if sigLen != SignatureLenBLSBLS12381 {
		verifAssert(!ok, "SPOCKVerifyAgainstData: wrong-length proof is a false verdict")
	}
	ok, err = BLSVerifyPOP(pk, sig)
	verifAssert(err == nil, "BLSVerifyPOP on a BLS key returns no error")
	if sigLen != SignatureLenBLSBLS12381 {
		verifAssert(!ok, "BLSVerifyPOP: wrong-length PoP is a false verdict")
	}
	pop, err := BLSGeneratePOP(sk)
	verifAssert(bAnd(err == nil, len(pop) == SignatureLenBLSBLS12381), "BLSGeneratePOP on a BLS key")
	_ = IsBLSSignatureIdentity(sig)
	_ = Signature(sig).String()
	_ = Signature(sig).Bytes()
	verifReach("bls sign verify")
}

// zzC09_spock: SPOCKVerify with two proofs of arbitrary lengths
func zzC09_spock(l1, l2 int) {
	var x1, x2 scalar
	nondetFrStar(&x1)
	nondetFrStar(&x2)
	pk1 := newPrKeyBLSBLS12381(&x1).PublicKey()
	pk2 := newPrKeyBLSBLS12381(&x2).PublicKey()
	p1, p2 := nondetBytes(l1), nondetBytes(l2)
	ok, err := SPOCKVerify(pk1, p1, pk2, p2)
	verifAssert(err == nil, "SPOCKVerify on BLS keys returns no error")
	if l1 != SignatureLenBLSBLS12381 || l2 != SignatureLenBLSBLS12381 {
		verifAssert(!ok, "wrong-length proofs are a false verdict")
	}
	verifReach("spock")
}

// zzC09_enum: every value of the algorithm enums, including undefined ones
func zzC09_enum(n int) {
	a := SigningAlgorithm(nondetInt())
	in := nondetBytes(n)
	_, err := DecodePrivateKey(a, in)
	if a != BLSBLS12381 && a != ECDSAP256 && a != ECDSASecp256k1 {
		verifAssert(IsInvalidInputsError(err), "DecodePrivateKey: unsupported algorithm is an invalid-input error")
	}
	_, err = DecodePublicKey(a, in)
	if a != BLSBLS12381 && a != ECDSAP256 && a != ECDSASecp256k1 {
		verifAssert(IsInvalidInputsError(err), "DecodePublicKey: unsupported algorithm is an invalid-input error")
	}
	_, err = DecodePublicKeyCompressed(a, in)
	if a != BLSBLS12381 && a != ECDSAP256 && a != ECDSASecp256k1 {
		verifAssert(IsInvalidInputsError(err), "DecodePublicKeyCompressed: unsupported algorithm is an invalid-input error")
	}
	_, err = GeneratePrivateKey(a, in)
	if a != BLSBLS12381 && a != ECDSAP256 && a != ECDSASecp256k1 {
		verifAssert(IsInvalidInputsError(err), "GeneratePrivateKey: unsupported algorithm is an invalid-input error")
	}
	_, err = SignatureFormatCheck(a, in)
	if a != ECDSAP256 && a != ECDSASecp256k1 {
		verifAssert(IsInvalidInputsError(err), "SignatureFormatCheck: unsupported algorithm is an invalid-input error")
	}
	verifReach("enum")
}

// zzC09_enum_string: String() of every enum value
func zzC09_enum_string() {
	a := SigningAlgorithm(nondetInt())
	_ = a.String()
	h := hash.HashingAlgorithm(nondetInt())
	_ = h.String()
	verifReach("enum string")
}

type c09OtherKey struct{}

func (c09OtherKey) Algorithm() SigningAlgorithm                  { return UnknownSigningAlgorithm }
func (c09OtherKey) Size() int                                    { return 0 }
func (c09OtherKey) String() string                               { return "" }
func (c09OtherKey) Verify(Signature, []byte, hash.Hasher) (bool, error) { return false, nil }
func (c09OtherKey) Encode() []byte                               { return nil }
func (c09OtherKey) EncodeCompressed() []byte                     { return nil }
func (c09OtherKey) Equals(PublicKey) bool                        { return false }

// zzC09_aggregate: aggregation / multi-verification entry points on every list shape
func zzC09_aggregate(n, sigLen, shape int) {
	var x scalar
	nondetFrStar(&x)
	sk := newPrKeyBLSBLS12381(&x)
	pk := sk.PublicKey()
	h := testHasher("c09-tag")
	msg := nondetBytes(2)
	sigs := make([]Signature, n)
	pks := make([]PublicKey, n)
	sks := make([]PrivateKey, n)
	msgs := make([][]byte, n)
	hs := make([]hash.Hasher, n)
	good, _ := sk.Sign(msg, h)
	for i := 0; i < n; i++ {
		// contents of well-formed-length signatures are the subject of C01-C05; here a correct one is used
		if sigLen == SignatureLenBLSBLS12381 {
			sigs[i] = good
		} else {
			sigs[i] = nondetBytes(sigLen)
		}
		pks[i] = pk
		sks[i] = sk
		msgs[i] = msg
		hs[i] = h
	}
	if n > 0 {
		switch shape {
		case 1: // a nil element
			pks[n-1] = nil
			sks[n-1] = nil
			sigs[n-1] = nil
			hs[n-1] = nil
		case 2: // a key of another type
			pks[n-1] = c09OtherKey{}
		case 3: // mismatched lengths
			msgs = msgs[:n-1]
			hs = hs[:n-1]
		case 4: // every signature is the identity signature
			for i := range sigs {
				sigs[i] = append([]byte{}, g1Serialization...)
			}
		case 5: // the first signature is the identity signature
			sigs[0] = append([]byte{}, g1Serialization...)
		}
	}
	agg, err := AggregateBLSSignatures(sigs)
	if n > 0 && shape >= 4 {
		verifAssert(bAnd(err == nil, len(agg) == SignatureLenBLSBLS12381), "AggregateBLSSignatures: identity signatures are valid inputs")
	}
	if n == 0 {
		verifAssert(IsBLSAggregateEmptyListError(err), "AggregateBLSSignatures: empty list")
	} else if sigLen != SignatureLenBLSBLS12381 {
		verifAssert(bAnd(agg == nil, IsInvalidSignatureError(err)), "AggregateBLSSignatures: wrong-length signatures are invalid-signature errors")
	}
	_, err = AggregateBLSPrivateKeys(sks)
	if n > 0 && shape == 1 {
		verifAssert(IsNotBLSKeyError(err), "AggregateBLSPrivateKeys: nil element is not a BLS key")
	}
	_, err = AggregateBLSPublicKeys(pks)
	if n == 0 {
		verifAssert(IsBLSAggregateEmptyListError(err), "AggregateBLSPublicKeys: empty list")
	} else if shape == 1 || shape == 2 {
		verifAssert(IsNotBLSKeyError(err), "AggregateBLSPublicKeys: nil / foreign element is not a BLS key")
	}
	_, err = RemoveBLSPublicKeys(pk, pks)
	if n > 0 && (shape == 1 || shape == 2) {
		verifAssert(IsNotBLSKeyError(err), "RemoveBLSPublicKeys: nil / foreign element is not a BLS key")
	}
	sig := nondetBytes(sigLen)
	if sigLen == SignatureLenBLSBLS12381 {
		sig = good
	}
	ok, err := VerifyBLSSignatureOneMessage(pks, sig, msg, h)
	verifAssert(bOr(!ok, err == nil), "VerifyBLSSignatureOneMessage: no true verdict together with an error")
	if n == 0 {
		verifAssert(bAnd(!ok, IsBLSAggregateEmptyListError(err)), "VerifyBLSSignatureOneMessage: empty list")
	}
	ok, err = VerifyBLSSignatureManyMessages(pks, sig, msgs, hs)
	verifAssert(bOr(!ok, err == nil), "VerifyBLSSignatureManyMessages: no true verdict together with an error")
	if n == 0 {
		verifAssert(bAnd(!ok, IsBLSAggregateEmptyListError(err)), "VerifyBLSSignatureManyMessages: empty list")
	} else if shape == 3 {
		verifAssert(bAnd(!ok, IsInvalidInputsError(err)), "VerifyBLSSignatureManyMessages: mismatched lengths")
	}
	res, err := BatchVerifyBLSSignaturesOneMessage(pks, sigs, msg, h)
	verifAssert(len(res) == n, "BatchVerifyBLSSignaturesOneMessage returns one verdict per signature")
	if n == 0 {
		verifAssert(IsBLSAggregateEmptyListError(err), "BatchVerifyBLSSignaturesOneMessage: empty list")
	}
	_, _ = BatchVerifyBLSSignaturesOneMessage(pks, sigs[:n/2], msg, h)
	verifReach("aggregate")
}

// zzC09_threshold_stateless: BLSReconstructThresholdSignature / BLSThresholdKeyGen / EnoughShares / constructors with
// arbitrary integers, share lengths and list sizes
func zzC09_threshold_stateless(nShares, shareLen, seedLen int) {
	shares := make([]Signature, nShares)
	signers := make([]int, nShares)
	for i := range shares {
		shares[i] = nondetBytes(shareLen)
		signers[i] = nondetInt()
	}
	// (1) every rejected (size, threshold) pair, symbolically
	size, thr := nondetInt(), nondetInt()
	verifAssume(bOr(bOr(size < ThresholdSignMinSize, size > ThresholdSignMaxSize), bOr(thr < MinimumThreshold, thr >= size)))
	sig, err := BLSReconstructThresholdSignature(size, thr, shares, signers)
	verifAssert(bAnd(sig == nil, IsInvalidInputsError(err)), "out-of-range size / threshold is an invalid-input error")
	_, _ = EnoughShares(thr, nShares)
	// (2) accepted configurations up to size 4 (the flattening buffer is linear in the threshold), signer indices symbolic
	size = nondetRange(2, 4)
	thr = nondetRange(1, 3)
	// signer indices: far out-of-range values symbolically, then concrete values in and around the range
	// (the interpolation runs on concrete signer sets)
	if nShares > 0 {
		far := make([]int, nShares)
		copy(far, signers)
		verifAssume(bOr(far[nShares-1] < -1, far[nShares-1] > 4))
		for i := 0; i < nShares-1; i++ {
			far[i] = i
		}
		_, err = BLSReconstructThresholdSignature(size, thr, shares, far)
		verifAssert(err != nil, "a far out-of-range signer index is an error")
		for i := range signers {
			signers[i] = i
		}
		signers[0] = nondetRange(-1, 4)
	}
	sig, err = BLSReconstructThresholdSignature(size, thr, shares, signers)
	verifAssert(bOr(sig == nil, err == nil), "no signature together with an error")
	if shareLen != SignatureLenBLSBLS12381 {
		verifAssert(sig == nil, "shares of the wrong length never reconstruct a signature")
	}
	if err != nil {
		verifAssert(bOr(bOr(IsInvalidInputsError(err), IsNotEnoughSharesError(err)), bOr(IsDuplicatedSignerError(err), IsInvalidSignatureError(err))), "rejection is one of the documented typed errors")
	}
	verifReach("threshold stateless")
}

// zzC09_threshold_keygen: BLSThresholdKeyGen with arbitrary integers and seed lengths
func zzC09_threshold_keygen(seedLen int) {
	seed := nondetBytes(seedLen)
	s2, t2 := nondetInt(), nondetInt()
	verifAssume(bOr(bOr(s2 < ThresholdSignMinSize, s2 > ThresholdSignMaxSize), bOr(t2 < MinimumThreshold, t2 >= s2)))
	_, _, _, err := BLSThresholdKeyGen(s2, t2, seed)
	verifAssert(IsInvalidInputsError(err), "BLSThresholdKeyGen rejects out-of-range size / threshold with an invalid-input error")
	sks, pks, gpk, err := BLSThresholdKeyGen(3, 1, seed)
	if seedLen < KeyGenSeedMinLen {
		// (only a minimum length is documented for this seed; it is smoothed through SHA3-256)
		verifAssert(bAnd(sks == nil, IsInvalidInputsError(err)), "BLSThresholdKeyGen rejects seeds that are too short with an invalid-input error")
	} else {
		verifAssert(bAnd(err == nil, bAnd(len(sks) == 3, bAnd(len(pks) == 3, gpk != nil))), "BLSThresholdKeyGen accepts a valid configuration")
	}
	verifReach("threshold keygen")
}

// zzC09_threshold_stateful: inspector / participant methods with arbitrary indices and share lengths, then reconstruction
func zzC09_threshold_stateful(shareLen int, trusted bool) {
	seed := nondetBytes(KeyGenSeedMinLen)
	sks, pks, gpk, _ := BLSThresholdKeyGen(3, 1, seed)
	msg := nondetBytes(2)
	ts, err := NewBLSThresholdSignatureInspector(gpk, pks, 1, msg, "c09-tag")
	verifAssume(err == nil)
	idx := nondetInt()
	share := nondetBytes(shareLen)
	if shareLen == SignatureLenBLSBLS12381 {
		// well-formed length: the share of signer 0 (valid for index 0 only); contents are the subject of C06
		share, _ = sks[0].Sign(msg, testHasher("c09-tag"))
	}
	ok, err := ts.VerifyShare(idx, share)
	if idx < 0 || idx >= 3 {
		verifAssert(bAnd(!ok, IsInvalidInputsError(err)), "VerifyShare: out-of-range index is an invalid-input error")
	} else if shareLen != SignatureLenBLSBLS12381 {
		verifAssert(bAnd(!ok, err == nil), "VerifyShare: wrong-length share is a false verdict")
	}
	_, err = ts.HasShare(idx)
	verifAssert((err != nil) == (idx < 0 || idx >= 3), "HasShare: error exactly for out-of-range indices")
	_, _ = ts.VerifyThresholdSignature(share)
	// additions: the index is again arbitrary, but split into concrete values in and around the range so
	// that the interpolation below runs on concrete signer sets (huge values behave like -1 / 3: rejected above)
	big := nondetInt()
	verifAssume(bOr(big < -1, big > 3))
	_, err = ts.TrustedAdd(big, share)
	verifAssert(IsInvalidInputsError(err), "TrustedAdd: far out-of-range index is an invalid-input error")
	_, _, err = ts.VerifyAndAdd(big, share)
	verifAssert(IsInvalidInputsError(err), "VerifyAndAdd: far out-of-range index is an invalid-input error")
	idx = nondetRange(-1, 3)
	if trusted {
		_, err = ts.TrustedAdd(idx, share)
		verifAssert((err != nil) == (idx < 0 || idx >= 3), "TrustedAdd: error exactly for out-of-range indices on a fresh object")
		idx2 := 1 // (arbitrary second indices are covered by the symbolic first one: the object treats calls alike)
		share2 := nondetBytes(shareLen)
		if shareLen == SignatureLenBLSBLS12381 {
			share2, _ = sks[1].Sign(msg, testHasher("c09-tag"))
		}
		_, _ = ts.TrustedAdd(idx2, share2)
	} else {
		v, _, err := ts.VerifyAndAdd(idx, share)
		verifAssert((err != nil) == (idx < 0 || idx >= 3), "VerifyAndAdd: error exactly for out-of-range indices on a fresh object")
		if shareLen != SignatureLenBLSBLS12381 {
			verifAssert(!v, "VerifyAndAdd: wrong-length share is not valid")
		}
	}
	tp, err := NewBLSThresholdSignatureParticipant(gpk, pks, 1, 0, sks[0], msg, "c09-tag")
	verifAssert(err == nil, "participant constructor with consistent keys")
	own, err := tp.SignShare()
	verifAssert(bAnd(err == nil, len(own) == SignatureLenBLSBLS12381), "SignShare")
	sig, err := ts.ThresholdSignature()
	verifAssert(bOr(sig == nil, err == nil), "ThresholdSignature: no signature together with an error")
	if shareLen != SignatureLenBLSBLS12381 {
		verifAssert(sig == nil, "ThresholdSignature: wrong-length shares never give a signature")
	}
	_ = ts.EnoughShares()
	verifReach("threshold stateful")
}

// zzC09_threshold_ctor: constructors of the stateful objects with arbitrary integers
func zzC09_threshold_ctor() {
	seed := nondetBytes(KeyGenSeedMinLen)
	sks, pks, gpk, _ := BLSThresholdKeyGen(3, 1, seed)
	msg := nondetBytes(2)
	// constructors with arbitrary integers
	thr, my := nondetInt(), nondetInt()
	tp, err := NewBLSThresholdSignatureParticipant(gpk, pks, thr, my, sks[0], msg, "c09-tag")
	verifAssert(bOr(tp == nil, err == nil), "participant constructor: no object together with an error")
	ti, err := NewBLSThresholdSignatureInspector(gpk, pks, thr, msg, "c09-tag")
	verifAssert(bOr(ti == nil, err == nil), "inspector constructor: no object together with an error")
	if thr < MinimumThreshold || thr >= 3 {
		verifAssert(IsInvalidInputsError(err), "inspector constructor rejects thresholds outside [1, n-1]")
	}
	_, err = NewBLSThresholdSignatureInspector(gpk, pks[:1], 1, msg, "c09-tag")
	verifAssert(IsInvalidInputsError(err), "inspector constructor rejects a group of one")
	verifReach("threshold ctor")
}

// zzC09_getters: the accessor methods of keys
func zzC09_getters() {
	var x scalar
	nondetFrStar(&x)
	sk := newPrKeyBLSBLS12381(&x)
	pk := sk.PublicKey()
	_, _, _ = sk.Algorithm(), sk.Size(), sk.String()
	_, _, _ = pk.Algorithm(), pk.Size(), pk.String()
	_, _, _ = sk.Encode(), pk.Encode(), pk.EncodeCompressed()
	verifAssert(bAnd(sk.Equals(sk), pk.Equals(pk)), "keys equal themselves")
	verifAssert(bAnd(!sk.Equals(nil), !pk.Equals(nil)), "keys differ from nil")
	verifAssert(!pk.Equals(c09OtherKey{}), "keys differ from keys of other types")
	id := IdentityBLSPublicKey()
	_, _ = id.Encode(), id.String()
	_ = BLSInvalidSignature()
	for a := 0; a < 2; a++ {
		esk, err := DecodePrivateKey(ecdsaAlgoOf(a), nondetBytes(32))
		if err != nil {
			continue
		}
		epk := esk.PublicKey()
		_, _, _ = esk.Algorithm(), esk.Size(), esk.String()
		_, _, _ = epk.Algorithm(), epk.Size(), epk.String()
		verifAssert(bAnd(esk.Equals(esk), epk.Equals(epk)), "ECDSA keys equal themselves")
		verifAssert(bAnd(!esk.Equals(sk), !epk.Equals(pk)), "ECDSA keys differ from BLS keys")
		verifAssert(bAnd(!sk.Equals(esk), !pk.Equals(epk)), "BLS keys differ from ECDSA keys")
		verifAssert(bAnd(!esk.Equals(nil), !epk.Equals(nil)), "ECDSA keys differ from nil")
	}
	verifReach("getters")
}
