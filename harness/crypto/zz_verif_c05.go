//go:build verif_harness && cgo

package crypto


// zzC05_E1_canonical: every 48-byte string that E1_read_bytes accepts re-encodes to itself.
func zzC05_E1_canonical(n int) {
	b := nondetBytes(n)
	var p pointE1
	err := readPointE1(&p, b)
	if err != nil {
		verifAssert(IsInvalidInputsError(err), "rejection is an invalid-input error")
		verifReach("E1 rejected")
		return
	}
	verifAssert(n == g1BytesLen, "only 48-byte strings are accepted")
	out := make([]byte, g1BytesLen)
	writePointE1(out, &p)
	assertEqBytes(out, b, "accepted E1 encoding re-encodes to exactly the input")
	verifReach("E1 accepted")
}

// zzC05_E2_canonical: every string that E2_read_bytes accepts re-encodes to itself.
func zzC05_E2_canonical(n int) {
	b := nondetBytes(n)
	var p pointE2
	err := readPointE2(&p, b)
	if err != nil {
		verifAssert(IsInvalidInputsError(err), "rejection is an invalid-input error")
		verifReach("E2 rejected")
		return
	}
	verifAssert(n == g2BytesLen, "only 96-byte strings are accepted")
	out := make([]byte, g2BytesLen)
	writePointE2(out, &p)
	assertEqBytes(out, b, "accepted E2 encoding re-encodes to exactly the input")
	verifReach("E2 accepted")
}

// zzC05_BLS_pubkey: DecodePublicKey(BLS) either rejects with an invalid-input error or accepts and
// Encode() gives back exactly the input; the identity flag is set iff the encoding is the infinity one.
func zzC05_BLS_pubkey(n int, compressedAPI bool) {
	b := nondetBytes(n)
	b0 := append([]byte{}, b...)
	var pk PublicKey
	var err error
	if compressedAPI {
		pk, err = DecodePublicKeyCompressed(BLSBLS12381, b)
	} else {
		pk, err = DecodePublicKey(BLSBLS12381, b)
	}
	assertEqBytes(b, b0, "input slice unmodified")
	if err != nil {
		verifAssert(IsInvalidInputsError(err), "rejection is an invalid-input error")
		verifAssert(pk == nil, "no key on error")
		verifReach("pubkey rejected")
		return
	}
	verifAssert(n == PubKeyLenBLSBLS12381, "only 96-byte strings are accepted")
	assertEqBytes(pk.Encode(), b0, "accepted BLS public key re-encodes to exactly the input")
	assertEqBytes(pk.EncodeCompressed(), b0, "EncodeCompressed agrees")
	k := pk.(*pubKeyBLSBLS12381)
	verifAssert(k.isIdentity == (b0[0]&0x40 != 0), "identity flag iff infinity encoding")
	// the key object does not alias the caller's buffer: recycling the buffer does not change the key
	for i := range b {
		b[i] ^= 0xa5
	}
	assertEqBytes(pk.Encode(), b0, "the decoded key still encodes to the accepted bytes after the caller reuses its buffer")
	pk2, err2 := DecodePublicKey(BLSBLS12381, b0)
	verifAssert(bAnd(err2 == nil, pk2.Equals(pk)), "and still equals a fresh decoding of those bytes")
	verifReach("pubkey accepted")
}

// zzC05_BLS_privkey: DecodePrivateKey(BLS) accepts exactly the 32-byte big-endian scalars in [1, r-1]
// and Encode() gives back exactly the input.
func zzC05_BLS_privkey(n int) {
	b := nondetBytes(n)
	b0 := append([]byte{}, b...)
	sk, err := DecodePrivateKey(BLSBLS12381, b)
	if err == nil {
		for i := range b { // the key does not alias the caller's buffer
			b[i] ^= 0xa5
		}
	}
	inRange := false
	if n == 32 {
		inRange = refScalarInRange(b0)
	}
	if err != nil {
		verifAssert(IsInvalidInputsError(err), "rejection is an invalid-input error")
		verifAssert(!inRange, "scalars in [1, r-1] are accepted")
		verifReach("privkey rejected")
		return
	}
	verifAssert(inRange, "only 32-byte scalars in [1, r-1] are accepted")
	assertEqBytes(sk.Encode(), b0, "accepted BLS private key re-encodes to exactly the input")
	verifReach("privkey accepted")
}

var blsOrderBE = [32]byte{0x73, 0xed, 0xa7, 0x53, 0x29, 0x9d, 0x7d, 0x48, 0x33, 0x39, 0xd8, 0x08, 0x09, 0xa1, 0xd8, 0x05,
	0x53, 0xbd, 0xa4, 0x02, 0xff, 0xfe, 0x5b, 0xfe, 0xff, 0xff, 0xff, 0xff, 0x00, 0x00, 0x00, 0x01}

// refScalarInRange: 0 < OS2IP(b) < r, by schoolbook comparison (no short-circuit: eager booleans)
func refScalarInRange(b []byte) bool {
	lt := false // b < r
	eq := true
	nz := false
	for i := 0; i < 32; i++ {
		lt = bOr(lt, bAnd(eq, b[i] < blsOrderBE[i]))
		eq = bAnd(eq, b[i] == blsOrderBE[i])
		nz = bOr(nz, b[i] != 0)
	}
	return bAnd(lt, nz)
}

// the standard G2 generator in the compressed ZCash format that bls.go cites (x.c1 || x.c0, flag bits 100)
var zcashG2Generator = []byte{
	0x93, 0xe0, 0x2b, 0x60, 0x52, 0x71, 0x9f, 0x60, 0x7d, 0xac, 0xd3, 0xa0, 0x88, 0x27, 0x4f, 0x65, 0x59, 0x6b, 0xd0, 0xd0, 0x99, 0x20, 0xb6, 0x1a,
	0xb5, 0xda, 0x61, 0xbb, 0xdc, 0x7f, 0x50, 0x49, 0x33, 0x4c, 0xf1, 0x12, 0x13, 0x94, 0x5d, 0x57, 0xe5, 0xac, 0x7d, 0x05, 0x5d, 0x04, 0x2b, 0x7e,
	0x02, 0x4a, 0xa2, 0xb2, 0xf0, 0x8f, 0x0a, 0x91, 0x26, 0x08, 0x05, 0x27, 0x2d, 0xc5, 0x10, 0x51, 0xc6, 0xe4, 0x7a, 0xd4, 0xfa, 0x40, 0x3b, 0x02,
	0xb4, 0x51, 0x0b, 0x64, 0x7a, 0xe3, 0xd1, 0x77, 0x0b, 0xac, 0x03, 0x26, 0xa8, 0x05, 0xbb, 0xef, 0xd4, 0x80, 0x56, 0xc8, 0xc1, 0x21, 0xbd, 0xb8}

// zzC05_zcash_g2: the public key of the private key 1 is the G2 generator; its encoding is the ZCash compressed
// encoding the documentation cites, and that encoding decodes to it
func zzC05_zcash_g2() {
	one := make([]byte, 32)
	one[31] = 1
	sk, err := DecodePrivateKey(BLSBLS12381, one)
	verifAssert(err == nil, "private key 1 decodes")
	got := sk.PublicKey().Encode()
	assertEqBytes(got, zcashG2Generator, "Encode(g2) is the ZCash compressed encoding of the standard G2 generator (x.c1 || x.c0)")
	verifReach("zcash g2")
}

// zzC05_agg_reframed: the bytes of n valid signatures cut into a list at other places than the 48-byte boundaries
// (entry lengths that compensate each other, e.g. 47 + 49, 0 + 96, 1 + 48 + 47): AggregateBLSSignatures must refuse
// the list with the invalid-signature error -- each entry has to be a 48-byte signature on its own.
func zzC05_agg_reframed(n, cut1, cut2 int) {
	cat := make([]byte, 0, n*g1BytesLen)
	for i := 0; i < n; i++ {
		var c scalar
		nondetFrStar(&c)
		b, _ := g1PointBytes(&c, false)
		cat = append(cat, b...)
	}
	var sigs []Signature
	if cut2 < 0 {
		sigs = []Signature{cat[:cut1], cat[cut1:]}
	} else {
		sigs = []Signature{cat[:cut1], cat[cut1:cut2], cat[cut2:]}
	}
	allOK := true
	for _, sg := range sigs {
		if len(sg) != g1BytesLen {
			allOK = false
		}
	}
	agg, err := AggregateBLSSignatures(sigs)
	if allOK {
		verifAssert(bAnd(err == nil, len(agg) == g1BytesLen), "a list of 48-byte valid signatures aggregates")
	} else {
		verifAssert(bAnd(agg == nil, IsInvalidSignatureError(err)), "a list with an entry that is not 48 bytes long is refused, also when the lengths compensate")
	}
	verifReach("aggregate reframed")
}

// zzC05_highbits: the field prime has 381 bits, so the top three bits of every 48-byte coordinate of a canonical
// encoding are zero (in byte 0 they carry the header flags). An accepted G2 public key encoding with any of the top
// three bits of byte 48 (first byte of the second coordinate) flipped must be refused -- a reader that masks them
// would accept several strings for one key. (Natively the accepted encoding is that of a real key.)
func zzC05_highbits(pos int) {
	b := nondetBytes(g2BytesLen)
	if verifNative() {
		kb := make([]byte, 32)
		kb[31] = 3
		sk, err := DecodePrivateKey(BLSBLS12381, kb)
		if err == nil {
			b = sk.PublicKey().Encode()
		}
	}
	_, err := DecodePublicKey(BLSBLS12381, b)
	verifAssume(err == nil)
	m := nondetByte() & 0xe0
	verifAssume(m != 0)
	b2 := append([]byte{}, b...)
	b2[pos] ^= m
	_, err = DecodePublicKey(BLSBLS12381, b2)
	verifAssert(err != nil, "an accepted G2 key encoding with a high bit of its second coordinate flipped is refused")
	verifReach("high bits")
}
