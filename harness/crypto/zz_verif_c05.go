//go:build verif_harness

package crypto

func assertEqBytes(got, want []byte, what string) {
	verifAssert(len(got) == len(want), what+" (length)")
	if len(got) != len(want) {
		return
	}
	for i := range got {
		verifAssert(got[i] == want[i], what)
	}
}

// zzC05_E1_canonical: every 48-byte string that E1_read_bytes accepts re-encodes to itself.
func zzC05_E1_canonical(n int) {
	b := nondetBytes(n)
	var p pointE1
	err := readPointE1(&p, b)
	if err != nil {
		verifAssert(IsInvalidInputsError(err), "rejection is an invalid-input error")
		verifReach("E1 rejected")
		return
	}
	verifAssert(n == g1BytesLen, "only 48-byte strings are accepted")
	out := make([]byte, g1BytesLen)
	writePointE1(out, &p)
	assertEqBytes(out, b, "accepted E1 encoding re-encodes to exactly the input")
	verifReach("E1 accepted")
}
