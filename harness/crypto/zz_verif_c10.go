//go:build verif_harness && cgo

package crypto

// C10: the documented single-use state machine. For every protocol, role, automaton state (reached
// through real calls) and API call with symbolic arguments: the error class is the documented one, a
// call rejected for a state-machine or index reason leaves every field unchanged and makes no
// callback, Running() follows the automaton, End leaves the instance not running.

func snapFvss(s *feldmanVSSstate, out []uint64) []uint64 {
	b := func(x bool) uint64 {
		if x {
			return 1
		}
		return 0
	}
	out = append(out, b(s.running), b(s.vAReceived), b(s.xReceived), b(s.validKey), uint64(len(s.vA)), uint64(len(s.y)), uint64(len(s.a)))
	buf := make([]byte, frBytesLen)
	writeScalar(buf, &s.x)
	for _, v := range buf {
		out = append(out, uint64(v))
	}
	return out
}

func snapQual(s *feldmanVSSQualState, out []uint64, n int) []uint64 {
	b := func(x bool) uint64 {
		if x {
			return 1
		}
		return 0
	}
	out = snapFvss(s.feldmanVSSstate, out)
	out = append(out, b(s.disqualified), b(s.sharesTimeout), b(s.complaintsTimeout), uint64(len(s.complaints)))
	for i := 0; i < n; i++ {
		c, ok := s.complaints[index(i)]
		if ok {
			out = append(out, 1, b(c.received), b(c.answerReceived))
		} else {
			out = append(out, 0, 0, 0)
		}
	}
	return out
}

func snapDKG(st DKGState, n int) []uint64 {
	out := make([]uint64, 0, 64)
	switch s := st.(type) {
	case *feldmanVSSstate:
		return snapFvss(s, out)
	case *feldmanVSSQualState:
		return snapQual(s, out, n)
	case *JointFeldmanState:
		if s.jointRunning {
			out = append(out, 1)
		} else {
			out = append(out, 0)
		}
		for i := range s.fvss {
			out = snapQual(&s.fvss[i], out, n)
		}
	}
	return out
}

func zzC10_step(proto, role, state, op, msgLen int) {
	const n, t = 3, 1
	me, d := 1, 0
	if role == 1 {
		me = 0
	}
	proc := &recProc{}
	var st DKGState
	var err error
	switch proto {
	case 0:
		st, err = NewFeldmanVSS(n, t, me, proc, d)
	case 1:
		st, err = NewFeldmanVSSQual(n, t, me, proc, d)
	default:
		st, err = NewJointFeldman(n, t, me, proc)
	}
	verifAssert(err == nil, "constructor accepts valid parameters")
	seed := nondetBytes(32)
	// drive the instance into automaton state `state` with real calls:
	// 0 new | 1 started | 2 one timeout | 3 two timeouts | 4 ended | 5 started + invalid vector from the dealer
	// 6 one timeout + a pending complaint against the dealer
	// 7 / 8 / 9: as 1 / 2 / 3 with a ForceDisqualify of an arbitrary in-range participant (possibly this one) right
	// after Start: the timeouts and End are accepted as if it had not happened
	running, timeouts := false, 0
	forced := state >= 7
	if forced {
		state -= 6
	}
	if state >= 1 {
		verifAssert(st.Start(seed) == nil, "Start accepted on a new instance")
		running = true
	}
	if forced {
		k := nondetInt()
		verifAssume(k >= 0 && k < n)
		verifAssert(st.ForceDisqualify(k) == nil, "ForceDisqualify of an in-range participant is accepted while running")
	}
	if state == 5 && me != d {
		_ = st.HandleBroadcastMsg(d, dkgVecMsg(1, n, t, d))
	}
	if state >= 2 && state <= 4 {
		verifAssert(st.NextTimeout() == nil, "first timeout accepted")
		timeouts = 1
	}
	if state == 6 {
		// the dealer dealt properly; one timeout passed and a complaint against dealer d from another
		// participant is pending (unanswered)
		if proto != 0 {
			_ = st.HandleBroadcastMsg(d, dkgVecMsg(0, n, t, d))
			_ = st.HandlePrivateMsg(d, dkgShareMsg(0, n, t, d, me))
		}
		verifAssert(st.NextTimeout() == nil, "first timeout accepted")
		timeouts = 1
		if proto != 0 {
			_ = st.HandleBroadcastMsg(2, []byte{byte(feldmanVSSComplaint), byte(d)})
		}
	}
	if state >= 3 && state <= 4 {
		verifAssert(st.NextTimeout() == nil, "second timeout accepted")
		timeouts = 2
	}
	if state == 4 {
		_, _, _, e := st.End()
		verifAssert(isDKGErrClass(e) == 0 || isDKGErrClass(e) == 3, "End accepted after both timeouts")
		running = false
	}
	verifAssert(st.Running() == running, "Running() follows the automaton")
	before := snapDKG(st, n)
	cbBefore := proc.callbacks()
	hasTimeouts := proto != 0
	// the call under test, with symbolic arguments
	orig := nondetInt()
	msg := nondetBytes(msgLen)
	var got error
	expect := 0
	inRange := orig >= 0 && orig < n
	switch op {
	case 0:
		got = st.Start(seed)
		if running {
			expect = 1
		}
		if state == 4 {
			verifReach("restart after End is outside the claim")
			return
		}
	case 1:
		got = st.NextTimeout()
		if hasTimeouts && (!running || timeouts == 2) {
			expect = 1
		}
	case 2:
		_, _, _, got = st.End()
		if !running || (hasTimeouts && timeouts < 2) {
			expect = 1
		} else {
			expect = -1 // accepted: nil or a DKG failure
		}
	case 3:
		got = st.HandleBroadcastMsg(orig, msg)
		if !running {
			expect = 1
		} else if !inRange {
			expect = 2
		}
	case 4:
		got = st.HandlePrivateMsg(orig, msg)
		if !running {
			expect = 1
		} else if !inRange {
			expect = 2
		}
	case 5:
		got = st.ForceDisqualify(orig)
		if !running {
			expect = 1
		} else if !inRange {
			expect = 2
		}
	default:
		verifAssert(st.Running() == running, "Running() is pure")
	}
	cls := isDKGErrClass(got)
	if expect == -1 {
		verifAssert(cls == 0 || cls == 3, "End is accepted after both timeouts (keys or DKG failure)")
		verifAssert(!st.Running(), "End leaves the instance not running")
	} else {
		verifAssert(cls == expect, "error class prescribed by the documented state machine")
	}
	if expect == 1 || expect == 2 || op == 6 {
		after := snapDKG(st, n)
		verifAssert(len(after) == len(before), "rejected call leaves the state unchanged (shape)")
		for i := range before {
			if i < len(after) {
				verifAssert(after[i] == before[i], "rejected call leaves the state unchanged")
			}
		}
		verifAssert(proc.callbacks() == cbBefore, "rejected call makes no callback")
		verifAssert(st.Running() == running, "rejected call does not change Running()")
	}
	verifReach("C10 step")
}

// constructor argument validation (symbolic sizes and indices)
func zzC10_constructor(proto int) {
	size, thr, me, d := nondetInt(), nondetInt(), nondetInt(), nondetInt()
	proc := &recProc{}
	var st DKGState
	var err error
	switch proto {
	case 0:
		st, err = NewFeldmanVSS(size, thr, me, proc, d)
	case 1:
		st, err = NewFeldmanVSSQual(size, thr, me, proc, d)
	default:
		d = 0
		verifAssume(size <= 6) // Joint-Feldman allocates `size` instances; larger sizes only repeat the loop
		st, err = NewJointFeldman(size, thr, me, proc)
	}
	ok := bAnd(bAnd(bAnd(size >= 2, size <= 254), bAnd(thr >= 1, thr < size)), bAnd(bAnd(me >= 0, me < size), bAnd(d >= 0, d < size)))
	verifAssert((err == nil) == ok, "constructors accept exactly the documented ranges")
	if err != nil {
		verifAssert(IsInvalidInputsError(err), "invalid constructor arguments give an invalid-input error")
		verifAssert(st == nil, "no instance on error")
	} else {
		verifAssert(!st.Running(), "a new instance is not running")
		verifAssert(bAnd(st.Size() == size, st.Threshold() == thr), "Size/Threshold")
	}
	verifReach("C10 constructor")
}

// zzC10_start_seed: Start with a seed of any length. A rejected Start (the dealer needs at least
// KeyGenSeedMinLen bytes) must leave the instance as it was -- in particular not running -- so that later
// messages are refused by the state machine instead of reaching code that assumes a dealt polynomial.
func zzC10_start_seed(proto, role, seedLen int) {
	const n, t = 3, 1
	me, d := 1, 0
	if role == 1 {
		me = 0
	}
	proc := &recProc{}
	var st DKGState
	var err error
	switch proto {
	case 0:
		st, err = NewFeldmanVSS(n, t, me, proc, d)
	case 1:
		st, err = NewFeldmanVSSQual(n, t, me, proc, d)
	default:
		st, err = NewJointFeldman(n, t, me, proc)
	}
	verifAssert(err == nil, "constructor accepts valid parameters")
	before := snapDKG(st, n)
	got := st.Start(nondetBytes(seedLen))
	dealer := me == d || proto == 2
	if dealer && seedLen < KeyGenSeedMinLen {
		verifAssert(got != nil, "a dealer's Start with a seed that is too short is rejected")
		verifAssert(IsInvalidInputsError(got), "with an invalid-input error")
		verifAssert(!st.Running(), "a rejected Start leaves the instance not running")
		verifAssert(proc.callbacks() == 0, "and sends nothing")
		if proto != 2 {
			// (Joint-Feldman: the inner instances' flags are reset by the next Start and are not observable)
			after := snapDKG(st, n)
			verifAssert(len(after) == len(before), "rejected Start leaves the state unchanged (shape)")
			for i := range before {
				if i < len(after) {
					verifAssert(after[i] == before[i], "rejected Start leaves the state unchanged")
				}
			}
		}
		// later traffic is refused by the state machine (and must not panic)
		other := 2
		e := st.HandleBroadcastMsg(other, []byte{byte(feldmanVSSComplaint), byte(me)})
		verifAssert(IsDKGInvalidStateTransitionError(e), "messages after a rejected Start are refused: the instance is not running")
		e = st.HandlePrivateMsg(other, nondetBytes(33))
		verifAssert(IsDKGInvalidStateTransitionError(e), "private messages after a rejected Start are refused")
		// the instance can still be started properly
		verifAssert(st.Start(nondetBytes(KeyGenSeedMinLen)) == nil, "a proper Start after a rejected one is accepted")
		verifAssert(st.Running(), "and the instance is then running")
		verifReach("start rejected")
		return
	}
	verifAssert(got == nil, "Start with a long enough seed (or as a non-dealer) is accepted")
	verifAssert(st.Running(), "and the instance is running")
	verifReach("start accepted")
}
