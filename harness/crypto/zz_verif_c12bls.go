//go:build verif_harness && cgo

package crypto

import (
	"unsafe"
	"crypto/rand"
	"io"
	"time"
	"crypto/sha256"
	"math/big"
)

func zzC12_bls(seedLen int) {
	seed := nondetBytes(seedLen)
	seed0 := append([]byte{}, seed...)
	sk, err := GeneratePrivateKey(BLSBLS12381, seed)
	if seedLen < KeyGenSeedMinLen || seedLen > KeyGenSeedMaxLen {
		verifAssert(bAnd(sk == nil, IsInvalidInputsError(err)), "seed lengths outside [32, 256] are rejected")
		verifReach("keygen rejected")
		return
	}
	verifAssert(err == nil, "valid seed lengths are accepted")
	assertEqBytes(seed, seed0, "seed unmodified")
	// IETF BLS KeyGen: salt = SHA-256("BLS-SIG-KEYGEN-SALT-"), IKM || I2OSP(0,1), info = I2OSP(48,2), L = 48
	salt := refSHA2_256([]byte("BLS-SIG-KEYGEN-SALT-"))
	ikm := append(append([]byte{}, seed0...), 0)
	okm := refHKDF(ikm, salt, string([]byte{0, 48}), 48)
	var x scalar
	isZero := mapToFr(&x, okm)
	if isZero {
		// the retry with the re-hashed salt
		salt = refSHA2_256(salt)
		okm = refHKDF(ikm, salt, string([]byte{0, 48}), 48)
		isZero = mapToFr(&x, okm)
		verifAssume(!isZero)
	}
	got := sk.Encode()
	verifAssert(sk.(*prKeyBLSBLS12381).scalar.equals(&x), "private key = mapToFr(HKDF(salt, IKM||0, info = 00 30, 48)) with the documented retry")
	verifAssert(frIsOS2IPModR(&sk.(*prKeyBLSBLS12381).scalar, okm), "private key = OS2IP(okm) mod r")
	verifAssert(!sk.(*prKeyBLSBLS12381).scalar.isZero(), "the generated key is never zero")
	sk2, err := GeneratePrivateKey(BLSBLS12381, seed0)
	verifAssert(bAnd(err == nil, sk2.Equals(sk)), "generation is deterministic")
	pk := sk.PublicKey()
	verifAssert(pk == sk.PublicKey(), "PublicKey() returns the cached object")
	dec, err := DecodePrivateKey(BLSBLS12381, got)
	verifAssert(err == nil, "the generated key decodes")
	verifAssert(dec.PublicKey().Equals(pk), "public key = generator times the private scalar (same for the decoded scalar)")
	verifReach("keygen bls")
}

// frIsOS2IPModR: x = OS2IP(b) mod r (natively with math/big; symbolically as exact linear forms over Z_r)
func frIsOS2IPModR(x *scalar, b []byte) bool {
	r, _ := new(big.Int).SetString("73eda753299d7d483339d80809a1d80553bda402fffe5bfeffffffff00000001", 16)
	v := new(big.Int).SetBytes(b)
	v.Mod(v, r)
	want := make([]byte, frBytesLen)
	v.FillBytes(want)
	got := make([]byte, frBytesLen)
	writeScalar(got, x)
	for i := range got {
		if got[i] != want[i] {
			return false
		}
	}
	return true
}

// zzC12_mapToFr: bytes -> F_r is reduction of the big-endian integer modulo r, for every content of n bytes
func zzC12_mapToFr(n int) {
	b := nondetBytes(n)
	b0 := append([]byte{}, b...)
	var x scalar
	isZero := mapToFr(&x, b)
	assertEqBytes(b, b0, "input unmodified")
	verifAssert(frIsOS2IPModR(&x, b0), "mapToFr(b) = OS2IP(b) mod r")
	verifAssert(isZero == x.isZero(), "returned flag = (result is zero)")
	verifReach("mapToFr")
}

// zzC12_aggregated: the public key of an aggregated private key is the aggregated scalar times the generator,
// whatever public keys were already computed (cached) in the input key objects -- mode 0 none, 1 only the last,
// 2 only the first, 3 all
func zzC12_aggregated(mode int) {
	var x1, x2 scalar
	nondetFrStar(&x1)
	nondetFrStar(&x2)
	sk1, sk2 := newPrKeyBLSBLS12381(&x1), newPrKeyBLSBLS12381(&x2)
	if mode == 2 || mode == 3 {
		_ = sk1.PublicKey()
	}
	if mode == 1 || mode == 3 {
		_ = sk2.PublicKey()
	}
	agg, err := AggregateBLSPrivateKeys([]PrivateKey{sk1, sk2})
	verifAssert(err == nil, "AggregateBLSPrivateKeys")
	pk := agg.PublicKey()
	verifAssert(pk == agg.PublicKey(), "PublicKey() returns the cached object")
	if !agg.(*prKeyBLSBLS12381).scalar.isZero() {
		dec, err := DecodePrivateKey(BLSBLS12381, agg.Encode())
		verifAssert(err == nil, "the aggregated key decodes")
		verifAssert(dec.PublicKey().Equals(pk), "public key of the aggregated key = generator times the aggregated scalar")
	}
	sum, _ := AggregateBLSPublicKeys([]PublicKey{newPrKeyBLSBLS12381(&x1).PublicKey(), newPrKeyBLSBLS12381(&x2).PublicKey()})
	verifAssert(sum.Equals(pk), "and equals the sum of the public keys")
	verifReach("keygen aggregated")
}

type c12SlowReader struct{ r io.Reader }

func (s c12SlowReader) Read(p []byte) (int, error) {
	time.Sleep(200 * time.Microsecond)
	return s.r.Read(p)
}

// zzC12_concurrent: key generation is a function of the seed also when several goroutines generate keys at once
// (symbolically one call runs; buffers handed to a sync.Pool must not be touched afterwards -- the executor checks
// that; natively goroutines generate keys concurrently under the race detector and compare with sequential results)
func zzC12_concurrent(algoKind int) {
	algo := BLSBLS12381
	if algoKind > 0 {
		algo = ecdsaAlgoOf(algoKind - 1)
	}
	const k = 8
	seeds := make([][]byte, k)
	want := make([][]byte, k)
	base := nondetBytes(KeyGenSeedMinLen)
	for i := range seeds {
		seeds[i] = append(append([]byte{}, base...), byte(i))
	}
	for i := range seeds {
		sk, err := GeneratePrivateKey(algo, seeds[i])
		verifAssume(err == nil)
		want[i] = sk.Encode()
		if !verifNative() {
			break // (one sequential generation is enough symbolically)
		}
	}
	if verifNative() {
		// natively the window between handing a buffer back and wiping it is widened by a slow entropy source
		// (overwrite() draws from crypto/rand), as a concurrent workload on a loaded machine would
		old := rand.Reader
		rand.Reader = c12SlowReader{old}
		defer func() { rand.Reader = old }()
	}
	verifParallel(k, func() {
		for rep := 0; rep < verifNativeRepeat(60); rep++ {
			for i := range seeds {
				sk, err := GeneratePrivateKey(algo, seeds[i])
				verifAssert(err == nil, "concurrent key generation succeeds")
				if err == nil {
					assertEqBytes(sk.Encode(), want[i], "concurrent key generation returns the key of the seed")
				}
				if !verifNative() {
					return
				}
			}
		}
	})
	verifReach("keygen concurrent")
}

func refSHA2_256(data []byte) []byte { d := sha256.Sum256(data); return d[:] }

// zzC12_pk_concurrent: two goroutines make the FIRST PublicKey() call on one private key object (fresh from the
// constructor / decoded / aggregated: the public key is computed lazily). Under every interleaving (sequentially
// consistent memory) each call returns the complete key scalar*g2, and so do later calls.
func zzC12_pk_concurrent(kind int) {
	var x, y scalar
	nondetFrStar(&x)
	nondetFrStar(&y)
	var sk *prKeyBLSBLS12381
	switch kind {
	case 0:
		sk = newPrKeyBLSBLS12381(&x)
	case 1:
		b := make([]byte, frBytesLen)
		writeScalar(b, &x)
		k, err := DecodePrivateKey(BLSBLS12381, b)
		verifAssume(err == nil)
		sk = k.(*prKeyBLSBLS12381)
	default:
		k, err := AggregateBLSPrivateKeys([]PrivateKey{newPrKeyBLSBLS12381(&x), newPrKeyBLSBLS12381(&y)})
		verifAssume(err == nil)
		sk = k.(*prKeyBLSBLS12381)
	}
	twinScalar := sk.scalar
	var e pointE2
	generatorScalarMultG2(&e, &twinScalar)
	want := make([]byte, g2BytesLen)
	writePointE2(want, &e)
	verifTrackShared(sk, unsafe.Offsetof(sk.pk), unsafe.Offsetof(sk.pk)+unsafe.Sizeof(sk.pk))
	var enc [2][]byte
	body := func(t int) func() {
		return func() {
			for rep := 0; rep < verifNativeRepeat(1); rep++ {
				enc[t] = sk.PublicKey().Encode()
			}
		}
	}
	verifThreads2(body(0), body(1))
	assertEqBytes(enc[0], want, "first concurrent PublicKey() call returns scalar*g2 (complete key)")
	assertEqBytes(enc[1], want, "second concurrent PublicKey() call returns scalar*g2 (complete key)")
	assertEqBytes(sk.PublicKey().Encode(), want, "later PublicKey() calls return scalar*g2")
	verifReach("public key concurrent")
}
