//go:build verif_harness

package hash

import (
	"crypto/sha256"
	"crypto/sha512"
	"encoding/binary"

	"golang.org/x/crypto/sha3"
)

// ---- references written from the standards -------------------------------------------------

// refSponge is the FIPS 202 sponge (pad10*1 with a domain byte that already contains the first
// padding bit), relative to the permutation keccakF1600.
func refSponge(rate int, ds byte, outLen int, msg []byte) []byte {
	var a [25]uint64
	padded := make([]byte, 0, len(msg)+rate)
	padded = append(padded, msg...)
	padded = append(padded, ds)
	for len(padded)%rate != 0 {
		padded = append(padded, 0)
	}
	padded[len(padded)-1] ^= 0x80
	for off := 0; off < len(padded); off += rate {
		for i := 0; i < rate/8; i++ {
			a[i] ^= binary.LittleEndian.Uint64(padded[off+8*i:])
		}
		keccakF1600(&a)
	}
	out := make([]byte, outLen)
	for i := 0; i < outLen; i++ {
		out[i] = byte(a[i/8] >> (8 * uint(i%8)))
	}
	return out
}

func refCShake128(N, S, data []byte, n int) []byte {
	h := sha3.NewCShake128(N, S)
	_, _ = h.Write(data)
	out := make([]byte, n)
	_, _ = h.Read(out)
	return out
}

func refSHA2_256(data []byte) []byte { d := sha256.Sum256(data); return d[:] }
func refSHA2_384(data []byte) []byte { d := sha512.Sum384(data); return d[:] }

// SP 800-185 2.3.1: left_encode / right_encode / encode_string / bytepad, written from the text.
func refEncLen(x uint64) []byte { // big-endian bytes of x without leading zeros, at least one byte
	n := 1
	for x>>(8*uint(n)) != 0 && n < 8 {
		n++
	}
	out := make([]byte, n)
	for i := 0; i < n; i++ {
		out[n-1-i] = byte(x >> (8 * uint(i)))
	}
	return out
}
func refLeftEncode(x uint64) []byte {
	e := refEncLen(x)
	return append([]byte{byte(len(e))}, e...)
}
func refRightEncode(x uint64) []byte {
	e := refEncLen(x)
	return append(e, byte(len(e)))
}
func refEncodeString(s []byte) []byte {
	return append(refLeftEncode(uint64(len(s))*8), s...)
}
func refBytepad(x []byte, w int) []byte {
	z := append(refLeftEncode(uint64(w)), x...)
	for len(z)%w != 0 {
		z = append(z, 0)
	}
	return z
}

// refKMAC128: KMAC128(K, X, L, S) = cSHAKE128(bytepad(encode_string(K),168) || X || right_encode(L), L, "KMAC", S)
func refKMAC128(key, cust, data []byte, outLen int) []byte {
	in := refBytepad(refEncodeString(key), 168)
	in = append(in, data...)
	in = append(in, refRightEncode(uint64(outLen)*8)...)
	return refCShake128([]byte("KMAC"), cust, in, outLen)
}

func assertEq(got, want []byte, what string) {
	verifAssert(len(got) == len(want), what+" (length)")
	if len(got) != len(want) {
		return
	}
	for i := range got {
		verifAssert(got[i] == want[i], what)
	}
}

func spongeAlgo(algo int) (Hasher, int, byte, int) {
	switch algo {
	case 0:
		return NewSHA3_256(), 136, 0x06, 32
	case 1:
		return NewSHA3_384(), 104, 0x06, 48
	default:
		return NewKeccak_256(), 136, 0x01, 32
	}
}

// zzC13_sponge_split: fresh hasher; Write(l1 bytes); Write(l2 bytes); SumHash == FIPS 202 digest of
// the concatenation (every fill level l1 mod rate x every write length l2 is one case).
func zzC13_sponge_split(algo, l1, l2 int) {
	h, rate, ds, outLen := spongeAlgo(algo)
	m1 := nondetBytes(l1)
	m2 := nondetBytes(l2)
	msg := append(append([]byte{}, m1...), m2...)
	n, err := h.Write(m1)
	verifAssert(bAnd(n == l1, err == nil), "Write returns len, nil")
	_, _ = h.Write(m2)
	got := h.SumHash()
	assertEq(got, refSponge(rate, ds, outLen, msg), "Write;Write;SumHash = FIPS 202 sponge of the concatenation")
	verifAssert(h.Size() == outLen, "Size")
	verifReach("sponge_split")
}

// zzC13_sponge_misaligned: the digest does not depend on where the caller's bytes sit in memory: the input is a
// sub-slice starting `off` bytes into its allocation (the whole-block fast path reads caller memory directly)
func zzC13_sponge_misaligned(algo, off, l1, l2 int) {
	h, rate, ds, outLen := spongeAlgo(algo)
	buf := nondetBytes(off + l1 + l2)
	data := buf[off:]
	msg := append([]byte{}, data...)
	want := refSponge(rate, ds, outLen, msg)
	assertEq(h.ComputeHash(data), want, "ComputeHash of a sub-slice at any offset = FIPS 202 digest")
	h.Reset()
	_, _ = h.Write(data[:l1])
	_, _ = h.Write(data[l1:])
	assertEq(h.SumHash(), want, "Write;Write;SumHash of sub-slices at any offset = FIPS 202 digest")
	verifReach("sponge_misaligned")
}

// zzC13_sponge_api: ComputeHash(x) is independent of what was written before (l0 bytes, optionally a
// SumHash), Reset + split writes + SumHash gives the same digest, the one-shot helper agrees.
func zzC13_sponge_api(algo, l0, lx, split int, sumFirst bool) {
	h, rate, ds, outLen := spongeAlgo(algo)
	junk := nondetBytes(l0)
	x := nondetBytes(lx)
	want := refSponge(rate, ds, outLen, x)
	if l0 > 0 {
		_, _ = h.Write(junk)
	}
	if sumFirst {
		_ = h.SumHash()
	}
	assertEq(h.ComputeHash(x), want, "ComputeHash(x) independent of previous state")
	h.Reset()
	_, _ = h.Write(x[:split])
	_, _ = h.Write(x[split:])
	assertEq(h.SumHash(), want, "Reset; Write; Write; SumHash")
	if algo == 0 {
		var res [32]byte
		ComputeSHA3_256(&res, x)
		assertEq(res[:], want, "ComputeSHA3_256 one-shot helper")
	}
	verifReach("sponge_api")
}

// zzC13_kmac: KMAC128 with key length kl, customizer length cl, output size ol; data split l1+l2.
func zzC13_kmac(kl, cl, ol, l0, l1, l2 int) {
	key := nondetBytes(kl)
	cust := nondetBytes(cl)
	h, err := NewKMAC_128(key, cust, ol)
	if kl < 16 || ol < 0 {
		verifAssert(bAnd(err != nil, h == nil), "short key / negative size rejected")
		verifReach("kmac rejected")
		return
	}
	verifAssert(err == nil, "valid parameters accepted")
	verifAssert(h.Size() == ol, "Size")
	junk := nondetBytes(l0)
	m1 := nondetBytes(l1)
	m2 := nondetBytes(l2)
	msg := append(append([]byte{}, m1...), m2...)
	want := refKMAC128(key, cust, msg, ol)
	// ComputeHash is independent of anything written before, and leaves the stream untouched
	_, _ = h.Write(junk)
	_, _ = h.Write(nil) // (a zero-length write changes nothing)
	assertEq(h.ComputeHash(msg), want, "KMAC ComputeHash = SP 800-185 KMAC128")
	assertEq(h.SumHash(), refKMAC128(key, cust, junk, ol), "SumHash after ComputeHash still sees exactly the written stream")
	h.Reset()
	_, _ = h.Write(m1)
	s1 := h.SumHash()
	assertEq(s1, refKMAC128(key, cust, m1, ol), "Reset; Write; SumHash")
	_, _ = h.Write(m2)
	assertEq(h.SumHash(), want, "writing after SumHash continues the same stream")
	// further Reset cycles start from the keyed initial state, whatever was written in earlier cycles,
	// and ComputeHash stays independent of the stream
	h.Reset()
	_, _ = h.Write(m2)
	_, _ = h.Write([]byte{})
	assertEq(h.ComputeHash(m1), refKMAC128(key, cust, m1, ol), "ComputeHash after Reset and Write is the MAC of its argument only")
	assertEq(h.SumHash(), refKMAC128(key, cust, m2, ol), "second Reset cycle: SumHash sees exactly what was written after the Reset")
	h.Reset()
	assertEq(h.SumHash(), refKMAC128(key, cust, []byte{}, ol), "Reset; SumHash is the MAC of the empty message")
	_, _ = h.Write(msg)
	assertEq(h.SumHash(), want, "third cycle")
	verifReach("kmac")
}

// zzC13_encode: left_encode / right_encode against SP 800-185 for every 64-bit value (symbolic).
func zzC13_encode() {
	v := nondetU64()
	assertEq(leftEncode(v), refLeftEncode(v), "left_encode")
	assertEq(rightEncode(v), refRightEncode(v), "right_encode")
	verifReach("encode")
}

// zzC13_bytepad: bytepad(x, 168) against SP 800-185 for input length l (content symbolic).
func zzC13_bytepad(l int) {
	x := nondetBytes(l)
	assertEq(bytepad(x, 168), refBytepad(x, 168), "bytepad = SP 800-185 (pad to a multiple of w, nothing if already aligned)")
	verifReach("bytepad")
}

// zzC13_sha2: SHA2 wrappers against the stream digest of exactly the right bytes.
func zzC13_sha2(algo, l0, l1, l2 int) {
	var h Hasher
	ref := refSHA2_256
	if algo == 0 {
		h = NewSHA2_256()
	} else {
		h = NewSHA2_384()
		ref = refSHA2_384
	}
	junk := nondetBytes(l0)
	m1 := nondetBytes(l1)
	m2 := nondetBytes(l2)
	msg := append(append([]byte{}, m1...), m2...)
	_, _ = h.Write(junk)
	assertEq(h.ComputeHash(msg), ref(msg), "ComputeHash(x) = digest of exactly x")
	h.Reset()
	_, _ = h.Write(m1)
	assertEq(h.SumHash(), ref(m1), "Reset; Write; SumHash")
	_, _ = h.Write(m2)
	assertEq(h.SumHash(), ref(msg), "writing after SumHash continues the stream")
	if algo == 0 {
		var res [32]byte
		ComputeSHA2_256(&res, msg)
		assertEq(res[:], ref(msg), "ComputeSHA2_256 one-shot helper")
	}
	verifReach("sha2")
}
