//go:build verif_harness

package hash

import "math/bits"

// verifKeccakLemma: natively the permutation under test; symbolically replaced by the per-round lemma of
// symex/keccak_lemma.py (which runs the real keccakF1600 of the purego build with a cut after every round)
func verifKeccakLemma(a *[25]uint64, lo, hi int) { keccakF1600(a) }
func verifNativeOnly() bool          { return true }

var refRC = [24]uint64{
	0x0000000000000001, 0x0000000000008082, 0x800000000000808A, 0x8000000080008000, 0x000000000000808B, 0x0000000080000001,
	0x8000000080008081, 0x8000000000008009, 0x000000000000008A, 0x0000000000000088, 0x0000000080008009, 0x000000008000000A,
	0x000000008000808B, 0x800000000000008B, 0x8000000000008089, 0x8000000000008003, 0x8000000000008002, 0x8000000000000080,
	0x000000000000800A, 0x800000008000000A, 0x8000000080008081, 0x8000000000008080, 0x0000000080000001, 0x8000000080008008}
var refRot = [5][5]int{{0, 36, 3, 41, 18}, {1, 44, 10, 45, 2}, {62, 6, 43, 15, 61}, {28, 55, 25, 21, 56}, {27, 20, 39, 8, 14}}

// refKeccakF1600: FIPS 202 section 3.2, written from the text (used by the native replay only)
func refKeccakF1600(a *[25]uint64) {
	for r := 0; r < 24; r++ {
		var c, d [5]uint64
		for x := 0; x < 5; x++ {
			c[x] = a[x] ^ a[x+5] ^ a[x+10] ^ a[x+15] ^ a[x+20]
		}
		for x := 0; x < 5; x++ {
			d[x] = c[(x+4)%5] ^ bits.RotateLeft64(c[(x+1)%5], 1)
		}
		var b [25]uint64
		for x := 0; x < 5; x++ {
			for y := 0; y < 5; y++ {
				b[y+5*((2*x+3*y)%5)] = bits.RotateLeft64(a[x+5*y]^d[x], refRot[x][y])
			}
		}
		for x := 0; x < 5; x++ {
			for y := 0; y < 5; y++ {
				a[x+5*y] = b[x+5*y] ^ (^b[(x+1)%5+5*y] & b[(x+2)%5+5*y])
			}
		}
		a[0] ^= refRC[r]
	}
}

// zzC20_keccakf: keccakF1600 (the permutation of the current build configuration) equals FIPS 202 on every state
func zzC20_keccakf(lo, hi int) {
	var a, b [25]uint64
	for i := range a {
		a[i] = nondetU64()
		b[i] = a[i]
	}
	verifKeccakLemma(&a, lo, hi)
	if verifNativeOnly() {
		refKeccakF1600(&b)
		for i := range a {
			verifAssert(a[i] == b[i], "keccakF1600 equals the FIPS 202 permutation")
		}
	}
	verifReach("keccakf")
}
