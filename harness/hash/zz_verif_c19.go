//go:build verif_harness

package hash

// zzC19_kmac: ComputeHash on a shared KMAC128 object writes to nothing that existed before the call
// (the object itself, its cSHAKE state, the key, the message), returns the one-shot MAC of the message
// whatever was written to the object before, and leaves the streaming state usable.
func zzC19_kmac(keyLen, preLen, msgLen int) {
	key := nondetBytes(keyLen)
	cust := nondetBytes(3)
	h, err := NewKMAC_128(key, cust, 32)
	verifAssume(err == nil)
	href, _ := NewKMAC_128(key, cust, 32)
	fresh, _ := NewKMAC_128(key, cust, 32)
	pre := nondetBytes(preLen)
	_, _ = h.Write(pre)
	_, _ = href.Write(pre)
	msg := nondetBytes(msgLen)
	msg0 := append([]byte{}, msg...)
	key0 := append([]byte{}, key...)
	want := fresh.ComputeHash(msg0)
	verifEffectsBegin()
	verifParallel(2, func() {
		out := h.ComputeHash(msg)
		assertEqBytes(out, want, "concurrent ComputeHash returns the MAC of its message")
	})
	n := verifEffectsEnd()
	verifAssert(n == 0, "ComputeHash writes to nothing that existed before the call (hasher, cSHAKE state, key, message)")
	verifAssert(verifSameState(h, href), "hasher object unchanged by ComputeHash")
	assertEqBytes(msg, msg0, "message unmodified")
	assertEqBytes(key, key0, "key unmodified")
	// the streaming state is still the one before the call
	tail := nondetBytes(2)
	_, _ = h.Write(tail)
	_, _ = href.Write(tail)
	assertEqBytes(h.SumHash(), href.SumHash(), "stream continues as if ComputeHash had not been called")
	verifReach("kmac computehash")
}

// zzC19_fixed: the fixed-function hashers' one-shot ComputeHash resets the object by documentation (not
// thread-safe); only the argument is checked to be left unmodified.
func zzC19_args(kind, msgLen int) {
	var h Hasher
	switch kind {
	case 0:
		h = NewSHA2_256()
	case 1:
		h = NewSHA2_384()
	case 2:
		h = NewSHA3_256()
	case 3:
		h = NewSHA3_384()
	default:
		h = NewKeccak_256()
	}
	msg := nondetBytes(msgLen)
	msg0 := append([]byte{}, msg...)
	_ = h.ComputeHash(msg)
	_, _ = h.Write(msg)
	_ = h.SumHash()
	assertEqBytes(msg, msg0, "message unmodified by ComputeHash / Write / SumHash")
	verifReach("args")
}

func assertEqBytes(got, want []byte, what string) {
	verifAssert(len(got) == len(want), what+" (length)")
	if len(got) != len(want) {
		return
	}
	for i := range got {
		verifAssert(got[i] == want[i], what)
	}
}
