//go:build verif_harness

package hash

// zzC19_kmac: ComputeHash on a shared KMAC128 object writes to nothing that existed before the call
// (the object itself, its cSHAKE state, the key, the message), returns the one-shot MAC of the message
// whatever was written to the object before, and leaves the streaming state usable.
func zzC19_kmac(keyLen, preLen, msgLen int) {
	key := nondetBytes(keyLen)
	cust := nondetBytes(3)
	h, err := NewKMAC_128(key, cust, 32)
	verifAssume(err == nil)
	href, _ := NewKMAC_128(key, cust, 32)
	fresh, _ := NewKMAC_128(key, cust, 32)
	pre := nondetBytes(preLen)
	_, _ = h.Write(pre)
	_, _ = href.Write(pre)
	// the message is a sub-slice with spare capacity (e.g. a field of a larger frame): the bytes behind it belong to
	// the caller as well
	frame := nondetBytes(msgLen + 8)
	frame0 := append([]byte{}, frame...)
	msg := frame[:msgLen]
	msg0 := append([]byte{}, msg...)
	key0 := append([]byte{}, key...)
	want := fresh.ComputeHash(msg0)
	verifEffectsBegin()
	verifParallel(2, func() {
		out := h.ComputeHash(msg)
		assertEqBytes(out, want, "concurrent ComputeHash returns the MAC of its message")
	})
	n := verifEffectsEnd()
	verifAssert(n == 0, "ComputeHash writes to nothing that existed before the call (hasher, cSHAKE state, key, message)")
	verifAssert(verifSameState(h, href), "hasher object unchanged by ComputeHash")
	assertEqBytes(msg, msg0, "message unmodified")
	assertEqBytes(frame, frame0, "bytes behind the message (spare capacity of the slice) unmodified")
	assertEqBytes(key, key0, "key unmodified")
	// the streaming state is still the one before the call
	tail := nondetBytes(2)
	_, _ = h.Write(tail)
	_, _ = href.Write(tail)
	assertEqBytes(h.SumHash(), href.SumHash(), "stream continues as if ComputeHash had not been called")
	verifReach("kmac computehash")
}

// zzC19_fixed: the fixed-function hashers' one-shot ComputeHash resets the object by documentation (not
// thread-safe); only the argument is checked to be left unmodified.
func zzC19_args(kind, msgLen int) {
	var h Hasher
	switch kind {
	case 0:
		h = NewSHA2_256()
	case 1:
		h = NewSHA2_384()
	case 2:
		h = NewSHA3_256()
	case 3:
		h = NewSHA3_384()
	default:
		h = NewKeccak_256()
	}
	frame := nondetBytes(msgLen + 8)
	frame0 := append([]byte{}, frame...)
	msg := frame[:msgLen]
	msg0 := append([]byte{}, msg...)
	_ = h.ComputeHash(msg)
	_, _ = h.Write(msg)
	_ = h.SumHash()
	assertEqBytes(msg, msg0, "message unmodified by ComputeHash / Write / SumHash")
	assertEqBytes(frame, frame0, "bytes behind the message (spare capacity of the slice) unmodified")
	verifReach("args")
}

func assertEqBytes(got, want []byte, what string) {
	verifAssert(len(got) == len(want), what+" (length)")
	if len(got) != len(want) {
		return
	}
	for i := range got {
		verifAssert(got[i] == want[i], what)
	}
}

// zzC09_kmac_ctor: NewKMAC_128 with arbitrary key / customizer lengths and an arbitrary output size; the
// object it returns accepts writes of any length
func zzC09_kmac_ctor(keyLen, custLen, dataLen int) {
	key := nondetBytes(keyLen)
	cust := nondetBytes(custLen)
	size := nondetInt()
	// documented exception: the output buffer is linear in the requested size
	verifAssume(size < 40)
	h, err := NewKMAC_128(key, cust, size)
	if keyLen < 16 || size < 0 {
		verifAssert(bAnd(h == nil, err != nil), "short keys and negative sizes are rejected")
		verifReach("kmac ctor rejected")
		return
	}
	verifAssert(err == nil, "valid parameters are accepted")
	verifAssert(h.Size() == size, "Size() is the requested size")
	_ = h.Algorithm().String()
	data := nondetBytes(dataLen)
	n, err := h.Write(data)
	verifAssert(bAnd(n == dataLen, err == nil), "Write consumes everything")
	verifAssert(len(h.SumHash()) == size, "SumHash has the requested size")
	verifAssert(len(h.ComputeHash(data)) == size, "ComputeHash has the requested size")
	h.Reset()
	verifReach("kmac ctor")
}

// zzC09_kmac_keylen: the constructor and one hash for a key of any length (key block padding boundaries)
func zzC09_kmac_keylen(keyLen int) {
	key := nondetBytes(keyLen)
	h, err := NewKMAC_128(key, nil, 32)
	if keyLen < 16 {
		verifAssert(bAnd(h == nil, err != nil), "short keys are rejected")
		verifReach("kmac keylen rejected")
		return
	}
	verifAssert(err == nil, "valid parameters are accepted")
	verifAssert(len(h.ComputeHash(nondetBytes(1))) == 32, "ComputeHash has the requested size")
	verifReach("kmac keylen")
}

// zzC09_hashers: fixed-function hashers and one-shot helpers on any input length
func zzC09_hashers(dataLen int) {
	data := nondetBytes(dataLen)
	for _, h := range []Hasher{NewSHA2_256(), NewSHA2_384(), NewSHA3_256(), NewSHA3_384(), NewKeccak_256()} {
		_ = h.Algorithm().String()
		d := h.ComputeHash(data)
		verifAssert(len(d) == h.Size(), "digest length")
		h.Reset()
		_, _ = h.Write(data)
		d2 := h.SumHash()
		verifAssert(d.Equal(d2), "one-shot equals streaming")
		// repeated calls in any order must not panic (the fixed-function hashers document that SumHash updates the
		// state and that writing afterwards needs a Reset: the VALUES of such calls are unspecified, so only
		// ComputeHash, which resets, is compared)
		_ = h.SumHash()
		_, _ = h.Write(nil)
		_, _ = h.Write([]byte{})
		_ = h.SumHash()
		verifAssert(d.Equal(h.ComputeHash(data)), "ComputeHash after SumHash")
		verifAssert(d.Equal(h.ComputeHash(data)), "ComputeHash twice")
		_ = h.SumHash()
		_ = h.SumHash()
		_, _ = h.Write(data)
		_ = h.SumHash()
		_, _ = d.Hex(), d.String()
		h.Reset()
	}
	var r1 [HashLenSHA2_256]byte
	var r2 [HashLenSHA3_256]byte
	ComputeSHA2_256(&r1, data)
	ComputeSHA3_256(&r2, data)
	verifReach("hashers")
}
