# writes /verif/seeded/<id>/meta.json from the table below (kept in one place)
import json, os
V = os.path.dirname(os.path.dirname(os.path.abspath(__file__)))
CONF = 'dev/confirm_seed.sh in a scratch worktree: demo passes without the patch (exit 0), full suite passes with it (exit 0), demo fails with it (exit 1)'
S = {
 'C01_a': ('C01', 'bls12381_utils.c E1_read_bytes: compression-bit test made one-sided', 'a 48-byte signature whose header has the compression bit cleared', 'C01 (raw_48), C05', 'C01/C05 strengthened after the first miss (round 1): raw-header family'),
 'C03_a': ('C03', 'bls_core.c bls_batch_verify: subgroup check replaced by the on-curve check', 'a batch entry on E1 but outside G1', 'C03', ''),
 'C05_a': ('C05', 'bls.go Verify: exact length guard became a lower bound', 'a signature with trailing bytes (length > 48)', 'C05 (BLS_sig_appended_*), C01 (appended_*)', 'appended-bytes cases added (round 1)'),
 'C08_a': ('C08', 'dkg_feldmanvssq.go buildAndBroadcastComplaint: at-most-once guard ignores whether a complaint was made', 'dealer broadcasts an unsolicited answer naming P before P complains, then deals P a bad share', 'C08 (early_*), C07 (early_*)', 'early-answer scenarios added (round 1); this work found defect F8'),
 'C13_a': ('C13', 'hash/keccak.go spongeState.write slow path: a Write that exactly completes a block leaves the buffer full', 'a buffered Write that fills the rate exactly, followed by more data or Sum', 'C13 (split_*)', ''),
 'C15_a': ('C15', 'random/rand.go UintN byte-count loop stops one byte early for n-1 = 0x100.., 0x10000..', 'n = 257, 65537.. (two leading bytes 01 00)', 'C15 (UintN_contract / UintN_uniform)', ''),
 'C02_b': ('C02', 'bls_multisig.go VerifyBLSSignatureManyMessages: per-index hashes memoised by message bytes only', 'the same message at two positions with different hashers (tags)', 'C02 (many_*_t1: two tags)', ''),
 'C04_b': ('C04', 'new C routine sums public keys with BLST mixed addition (assumes affine inputs)', 'aggregating a key returned by RemoveBLSPublicKeys (Jacobian, Z != 1)', 'C04 (agg_n2_*, n3)', 'dadd_affine contract added to the group model; re-aggregation of removal results added to the harness'),
 'C06_b': ('C06', 'bls_thresholdsign_core.c: Lagrange numerator computed once; first denominator limb gets 9 factors', 't+1 >= 9 signers with large indices, signer at position >= 8', 'C06 (limb_lemma_deg8_*)', 'limb lemma on fully symbolic signer indices built (no 64-bit wrap-around in the Lagrange functions)'),
 'C07_b': ('C07', 'dkg_feldmanvssq.go receiveVerifVector: vAReceived set after the share check', 'early answer, then a wrong share, both before the vector ([A, x, V] / [x, A, V])', 'C07 (early_*_o1 / _o3), C08 (early_*)', 'share-before-vector delivery orders added to the early-answer scenarios of C07'),
 'C10_b': ('C10', 'dkg_feldmanvssq.go handlers range-check the origin after conversion to a byte', 'origins k + 256*m with k a valid index (257, -255, 513, ...)', 'C10 (p1/p2 .. op3/op4: symbolic 64-bit origin)', ''),
 'C14_b': ('C14', 'random/chacha20.go Read: chunked loop re-slices the buffer, counter counts only the tail', 'one Read of more than 64 bytes followed by Store/Restore', 'C14 (stream_*_65 ...)', ''),
 'C16_b': ('C16', 'bls.go NewExpandMsgXOFKMAC128: tags that already end with the h2c suite id are not suffixed', 'the application tag equal to the PoP ciphersuite string (43 bytes)', 'C16 (pop_tag43)', 'quick tier covers every tag length 0..64; hash model forks when two hash inputs may coincide (soundness fix); strings package bodies dumped'),
 'C17_b': ('C17', 'bls_core.c bls_spock_verify: same-key shortcut before the G1 membership checks', 'equal keys and equal proofs that are on E1 outside G1', 'C17 (relation_11)', ''),
 'C01_c': ('C01', 'bls_multisig.go RemoveBLSPublicKeys bypasses the constructor: identity flag never computed', 'an identity public key obtained by removing all keys, then the identity signature', 'C01 (other_7), C04 (identity flag is recomputed)', 'identity keys however obtained added to C01'),
 'C03_c': ('C03', 'one 16-byte seed, coefficients R+1, R+2, ... (two cooperating sites in Go and C)', 'three in-G1 invalid signatures with errors (+D, -2D, +D)', 'C03 (batch_111)', ''),
 'C05_c': ('C05', 'ecdsa.go decodePublicKeyCompressed: 33-byte length check removed (btcec.ParsePubKey also accepts 65 bytes)', 'secp256k1, 65-byte 04/06/07 || X || Y input to DecodePublicKeyCompressed', 'C05 (ECDSA_pubkey_compressed_a1_65)', 'ParsePubKey contract for all lengths; counterexample models refined to a real curve point (generator)'),
 'C08_c': ('C08', 'dkg_jointfeldman.go HandleBroadcastMsg drops messages from senders already disqualified as dealers', 'Joint-Feldman, t >= 2: a participant disqualified as a dealer complains against another dealer (exactly t+1 complaints)', 'C08 (jf_complaints_*)', 'Joint-Feldman observer scenario added'),
 'C09_c': ('C09', 'dkg_feldmanvssq.go: refactored complaint check lost the vAReceived guard at one call site', 'answer naming P, then a malformed share to P, both before the vector: index-out-of-range panic', 'C09 (dkgseq_early_*), C08 (early_*: panic)', 'DKG message sequences of C08 added to the C09 sweep'),
 'C11_c': ('C11', 'ecdsa.go: secp256k1 verification through btcec native ECDSA; ModNScalar.SetByteSlice reduces mod n, overflow flag ignored', 'a valid signature whose s (or r) is below 2^256 - n, presented as s + n', 'C11 (overflow_s_a1)', 'btcec native route modelled; harness builds a real instance natively (nonce and s chosen, key solved)'),
 'C12_c': ('C12', 'ecdsa.go generatePrivateKey: seed copied into a [32]byte (slice-to-array conversion keeps the first 32 bytes)', 'ECDSA seeds longer than 32 bytes', 'C12 (ecdsa_a*_seed_33 ...)', ''),
 'C13_c': ('C13', 'hash/kmac.go: keyed initial state cached; Reset aliases it instead of cloning', 'Reset, then a non-empty Write, then ComputeHash or another Reset cycle on one object', 'C13 (kmac_*)', 'second and third Reset cycles added to the KMAC harness'),
 'C15_c': ('C15', 'random/rand.go UintN mask built with the 32-bit bit-smearing trick (missing >> 32)', 'n > 2^32 with 32 zero bits below the top bit of n-1 (2^40+1 ...)', 'C15 (UintN_uniform)', ''),
 'C18_c': ('C18', 'bls_thresholdsign.go VerifyAndAdd verifies without the lock and does not re-check "not yet enough" before inserting', 'two adders for different new valid signers overlapping when one slot is left', 'C18 (add_add_last_slot, add_then_sig__add)', ''),
 'C19_c': ('C19', 'bls.go public key caches its encoding on first Encode()', 'first BLSVerifyPOP / Encode of a key object from two goroutines at once', 'C19 (bls_op2)', 'inputs of the operation under test are prepared with twin objects so that the shared objects are fresh'),
 'C02_d': ('C02', 'bls_core.c bls_verifyPerDistinctKey sums hashes in batches of 64 through a fixed stack array; each batch overwrites the previous sum', 'one key paired with at least 65 messages on the per-distinct-key path', 'MISSED by C02 (outside its bound: n <= 4, one-key groups up to 17)', 'wide one-key cases (9 / 17 messages) added; a group of 65 is beyond what the model executes in reasonable time -- recorded as a miss'),
 'C04_d': ('C04', 'bls_multisig.go AggregateBLSPrivateKeys pre-fills the public key from cached input public keys; the all-cached flag only reflects the last key', 'inputs in a mixed hidden state: the last key had PublicKey() called, an earlier one not', 'C04 (agg_n2_*, agg_n3_*)', 'fresh key objects with none / last / first public key precomputed added to the harness; replay keeps recorded failures when the tape runs out'),
 'C06_d': ('C06', 'bls_thresholdsign.go: post-verification skipped when a counter of verified shares reaches the stored count; late (not stored) verified shares are counted', 'a wrong TrustedAdd share, threshold reached, then further valid VerifyAndAdd calls, then ThresholdSignature', 'C06 (stateful_mixed_*)', 'mixed trusted / verified sequences with late shares added'),
 'C09_d': ('C09', 'bls_thresholdsign.go validIndex takes the byte-sized index type: range check after truncation', 'indices 256, 257, -256, 1<<32 ... in VerifyShare / HasShare / TrustedAdd / VerifyAndAdd', 'C09 (thr_stateful_*: symbolic 64-bit index)', ''),
 'C10_d': ('C10', 'dkg_jointfeldman.go End: the two-timeouts check moved after the unanswered-complaint finalisation of the same iteration', 'Joint-Feldman, a pending unanswered complaint against dealer 0, End called before both timeouts (rejected, but dealer 0 already disqualified)', 'C10 (p2_r0_s6_op2)', 'automaton state "one timeout with a pending complaint against a properly dealing dealer" added'),
 'C12_d': ('C12', 'bls.go generatePrivateKey takes the HKDF secret buffer from a sync.Pool; Put is deferred after the wipe, so it runs before it', 'two concurrent BLS key generations (the first call wipes the buffer the second already owns)', 'C12 (concurrent_bls)', 'sync.Pool model with a use-after-Put check; concurrent key-generation harness replayed natively under the race detector with a slow entropy source'),
 'C14_d': ('C14', 'random/chacha20.go RestoreChacha20PRG narrows the 64-bit byte counter to uint32 before splitting it', 'Store/Restore with a stored byte counter >= 2^32', 'C14 (restore_any_*: symbolic 64-bit counter)', ''),
 'C17_d': ('C17', 'spock.go identity guard refuses a pair only when key AND proof are the identity', 'both keys the identity with non-identity proofs', 'C17 (honest_3)', 'double-identity-key cases with arbitrary proofs added'),
 'C18_d': ('C18', 'bls_thresholdsign.go TrustedAdd decides "not enough yet" under the read lock and inserts under the write lock without re-checking', 'two TrustedAdd calls of distinct new signers crossing the threshold together', 'C18 (add_add_last_slot, add_then_sig__add)', ''),
 'C20_d': ('C20', 'hash: final padding delegated to a per-build helper; the purego variant assumes the rest of the buffer is zero', '-tags purego, a streamed Write ending mid-block, a later Write crossing the block boundary, then SumHash', 'C20 (purego part: split_*, api_*); the default-build part stays clean', 'builtin clear supported'),
}
for sid, (prop, change, needs, caught, strengthened) in S.items():
    d = os.path.join(V, 'seeded', sid)
    if not os.path.isdir(d):
        continue
    pk = '.'
    n = os.path.join(d, 'notes.txt')
    if os.path.exists(n):
        first = open(n).readline()
        if first.startswith('pkgdir:'):
            pk = first.split(':', 1)[1].strip()
        elif sid in ('C13_a',):
            pk = 'hash'
        elif sid in ('C15_a',):
            pk = 'random'
    meta = {'id': sid, 'breaks_property': prop, 'change': change, 'needs_to_manifest': needs,
            'demo': {'file': 'zz_seed_demo_test.go', 'package_dir': pk, 'test': 'TestSeedDemo'},
            'origin': 'written by a fresh sub-agent that was given only the property record and a scratch worktree of /repo',
            'confirmed_by': CONF,
            'checks_that_catch_it': caught, 'machinery_strengthened_because_of_it': strengthened or 'none needed',
            'how_to_run': 'sh dev/run_seed.sh seeded/%s %s   (applies patch.diff in a scratch worktree, runs the check with VERIF_REPO, removes the worktree)' % (sid, prop)}
    json.dump(meta, open(os.path.join(d, 'meta.json'), 'w'), indent=1)
print('ok', len(S))
