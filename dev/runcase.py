# dev helper: run one harness case and print a summary
import sys, time
sys.path.insert(0,'/verif')
from symex import driver, core, checklib
from symex.checklib import Case
ssa = driver.dump_ssa()
pkg=sys.argv[1]; name=sys.argv[2]; args=[int(x) if x.lstrip('-').isdigit() else (x=='True') for x in sys.argv[3:]]
c = Case('t',pkg,name,args)
t=time.time()
r = checklib._run_case((ssa,c,60000,0,None))
print(round(time.time()-t,2), 'paths',r['paths'], r['status'], r['violations'][:3], r['unsupported'][:3], r['stats'])
