# dev helper: run one harness case and print a summary:  runcase.py <pkg> <fn> [setup=mod:fn] args...
import sys, time
sys.path.insert(0,'/verif')
from symex import driver, core, checklib
from symex.checklib import Case
ssa = driver.dump_ssa()
pkg=sys.argv[1]; name=sys.argv[2]; rest=sys.argv[3:]
setup=None
if rest and rest[0].startswith('setup='):
    setup=rest[0][6:]; rest=rest[1:]
args=[int(x) if x.lstrip('-').isdigit() else (x=='True') for x in rest]
c = Case('t',pkg,name,args)
t=time.time()
try:
    r = checklib._run_case((ssa,c,60000,0,setup))
except Exception as e:
    import traceback
    print('ENGINE ERROR', type(e).__name__, str(e)[:300]); print(''.join(traceback.format_exc().splitlines(True)[-6:])); sys.exit(1)
print(round(time.time()-t,2), 'paths',r['paths'], r['status'], r['violations'][:3], r['unsupported'][:3], r['stats'], r['labels'])
