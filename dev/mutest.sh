#!/bin/sh
# usage: dev/mutest.sh <name> <sed-expression> <file> <props...>  : apply a one-line mutation in a scratch worktree and run checks
name=$1; expr=$2; file=$3; shift 3
wt=/tmp/wt_$name
git -C /repo worktree add -q $wt HEAD || exit 2
sed -i "$expr" $wt/$file
(cd $wt && git diff --stat | tail -1)
for p in "$@"; do
  (cd /verif && VERIF_REPO=$wt timeout 3000 ./check $p 2>&1 | cut -c1-220 | grep "violation class\|^VIOLATION\|INCONCLUSIVE\|BROKEN\|^C[0-9]" | head -8)
done
git -C /repo worktree remove --force $wt
