#!/bin/sh
# usage: dev/matrix.sh [seed-ids...] : run each seeded change's own property check against it (scratch worktree) and
# append one line per seed to seeded/MATRIX.txt: <seed> <property> exit=<rc> <violated assertion classes>
cd /verif
export PATH=/opt/veriftools/go1.26.8/bin:$PATH GOFLAGS=-mod=mod GOPROXY=off GOSUMDB=off GOTOOLCHAIN=local
[ $# -eq 0 ] && set -- $(ls seeded | grep '^C[0-9][0-9]_')
for s in "$@"; do
  p=$(echo $s | cut -c1-3)
  out=$(sh dev/run_seed.sh seeded/$s $p 2>&1)
  rc=$(echo "$out" | sed -n "s/^$s $p exit=\([0-9]*\).*/\1/p" | head -1)
  nviol=$(grep -c "^VIOLATION property=$p" /tmp/rs_${s}_$p.log)
  first=$(grep -m1 "violation class" /tmp/rs_${s}_$p.log | cut -c1-160)
  [ -z "$first" ] && first=$(grep -m1 "BROKEN\|unsupported" /tmp/rs_${s}_$p.log | cut -c1-160)
  echo "$s $p exit=$rc VIOLATION-lines=$nviol | $first" >> seeded/MATRIX.txt
  rm -f /tmp/rs_${s}_$p.log
done
