#!/bin/sh
# usage: dev/confirm_seed.sh <id> <outdir> <demo-subdir(. | hash | random)>
# confirms a seeded change in a scratch worktree: demo passes without the patch, suite passes with it, demo fails with it
id=$1; out=$2; sub=$3
wt=/tmp/cs_$id
git -C /repo worktree add -q $wt HEAD || exit 2
cp $out/zz_seed_demo_test.go $wt/$sub/
cd $wt
go test -mod=mod -vet=off -count=1 -run 'TestSeedDemo$' ./$sub/ > /tmp/cs_$id.demo0.log 2>&1; d0=$?
git apply $out/patch.diff || { echo "patch does not apply"; exit 3; }
go test -mod=mod -vet=off -count=1 -skip 'TestSeedDemo$' ./... > /tmp/cs_$id.suite.log 2>&1; s1=$?
go test -mod=mod -vet=off -count=1 -run 'TestSeedDemo$' ./$sub/ > /tmp/cs_$id.demo1.log 2>&1; d1=$?
echo "$id: demo_without_patch_exit=$d0 suite_with_patch_exit=$s1 demo_with_patch_exit=$d1"
cd /; git -C /repo worktree remove --force $wt
