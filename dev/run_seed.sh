#!/bin/sh
# usage: dev/run_seed.sh <seed-dir> <props...> : apply the seeded patch in a scratch worktree and run the checks against it
sd=$1; shift
name=$(basename $sd)
wt=/tmp/rs_$name
git -C /repo worktree add -q $wt HEAD || exit 2
(cd $wt && git apply /verif/$sd/patch.diff) || { echo "patch does not apply"; git -C /repo worktree remove --force $wt; exit 3; }
for p in "$@"; do
  (cd /verif && VERIF_REPO=$wt timeout 1500 ./check $p > /tmp/rs_${name}_$p.log 2>&1; echo "$name $p exit=$?"; grep "violation class\|^VIOLATION\|INCONCLUSIVE\|BROKEN\|^C[0-9]" /tmp/rs_${name}_$p.log | cut -c1-230 | head -8)
done
git -C /repo worktree remove --force $wt
