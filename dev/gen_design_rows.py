# prints the DESIGN.md section 16 table rows for the seeds whose id ends with one of the given suffixes
import sys, os
src = open(os.path.join(os.path.dirname(os.path.abspath(__file__)), 'gen_seed_meta.py')).read()
ns = {'__file__': os.path.abspath(__file__)}
exec(src.split("for sid, (prop")[0], ns)
for sid, (prop, change, needs, caught, strength) in ns['S'].items():
    if any(sid.endswith(x) for x in sys.argv[1:]):
        print('| %s | %s | %s | %s | %s | %s |' % (sid, prop, change, needs, caught, strength or '—'))
