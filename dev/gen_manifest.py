# generates /verif/MANIFEST.json from the table below (kept in one place so it stays valid)
import json, os
V = os.path.dirname(os.path.dirname(os.path.abspath(__file__)))
ALL = ['C%02d' % i for i in range(1, 21)]
ALG_NOTE = 'Trusted: BLST curve/pairing/hash-to-curve as the algebraic model listed in evidence (group law on exact polynomial discrete logs, non-degenerate pairing that ignores cofactor torsion, hash discrete logs as formal indeterminates, collision-resistant stream hashes), the C05 contract for point (de)serialisation, clang -O0 IR for the gcc build; counterexamples are replayed natively. Cryptographic hardness is not claimed.'
TECH = 'bounded symbolic execution of the real go/ssa (and clang LLVM-IR) of /repo in our own executor; every assertion decided by z3 over all inputs within the stated bounds; counterexamples replayed natively'
CHECKS = {
 'C01': dict(design='6.1', text='Bounded symbolic model checking of Sign/Verify through cgo into the LLVM IR of bls_core.c / bls12381_utils.c with an algebraic group model at the BLST boundary: for a symbolic key, symbolic messages and every candidate a*H(m)+b*g1 (+cofactor torsion), raw strings and other lengths, z3 decides that Verify accepts exactly the group element sk*H(m) in G1, that Sign output verifies, and that other messages, keys, tags, the identity signature/key and bad hashers give the documented results.',
             note=ALG_NOTE),
 'C02': dict(design='6.2', text='Bounded symbolic model checking of VerifyBLSSignatureManyMessages / OneMessage: the Go grouping code (two maps, flattening with per-group counts, every map iteration order) and both C verification paths with their offset bookkeeping are executed for every assignment pattern of keys and messages to n <= 3 positions (4 in the thorough tier); for the candidate aggregate + delta*g1 z3 decides that the verdict is true exactly when delta = 0; cancelling keys, identity keys and the typed errors are covered.',
             note=ALG_NOTE + ' n is bounded; C memory accesses are bounds-checked on every path.'),
 'C03': dict(design='6.3', text='Bounded symbolic model checking of BatchVerifyBLSSignaturesOneMessage and the C aggregation tree (build, top-down isolation, free) for n <= 4 (5 thorough): every subset of invalid positions, every invalidity kind per position, cancelling pairs of errors; the returned booleans equal the individual Verify verdicts for every value of the random coefficients outside the exceptional set, which is encoded by treating the coefficients as formal indeterminates.',
             note=ALG_NOTE + ' The probability of the exceptional set (about 2^-128 per tree node) is arithmetic outside the solver; weak randomness (fewer seed bytes) is not detected, a shared or one-sided coefficient is.'),
 'C06': dict(design='6.6', text='Bounded symbolic model checking of BLSThresholdKeyGen, share signing, stateless and stateful reconstruction: polynomial evaluation (Horner, from LLVM IR), the limb-batched Lagrange coefficient code on concrete signer indices (up to 9 signers quick / 17 thorough, crossing the 8-index limb boundary) and the multi-scalar contract are executed with exact polynomials; the reconstructed discrete log normalises to a_0*h for every signer set of the bound, byte-equal across sets and orders; the stateful object never returns an unverified signature; documented errors.',
             note=ALG_NOTE + ' (n, t) up to (4,2) quick / (6,3) thorough plus the large signer sets; derivation of the polynomial from the seed is outside; zero key shares (1/r) excluded.'),
 'C04': dict(design='6.4', text='Bounded symbolic model checking of the aggregation functions (Go + C sum loops) in the algebraic model: pk(sum sk) = sum pk, aggregate of signatures = signature by the aggregated key (byte-equal), removal, order and nesting independence, exact identity cases (the solver chooses keys summing to zero), and the documented errors.',
             note=ALG_NOTE + ' Multisets of at most 3 (quick) / 4 (thorough) keys.'),
 'C16': dict(design='6.16', text='Bounded symbolic model checking of BLSGeneratePOP / BLSVerifyPOP and of the KMAC key strings for every application tag of the bounded lengths with symbolic contents: a PoP verifies under its key only, never under the identity key; a signature of the public-key bytes under any tag is not a PoP and vice versa (the absorbed KMAC prefixes differ for all tags).',
             note=ALG_NOTE + ' The step from different KMAC prefixes to unrelated hash outputs is the random-oracle assumption.'),
 'C17': dict(design='6.17', text='Bounded symbolic model checking of SPOCKProve / SPOCKVerify / SPOCKVerifyAgainstData and bls_spock_verify in the algebraic model: verdict = (both proofs in G1) and c1*sk2 = c2*sk1 for all proofs c_i*g1 (+torsion), symmetry, honest proofs, different data, other key, identity keys, lengths, raw strings, non-BLS keys.',
             note=ALG_NOTE),
 'C05': dict(design='6.5', text='Bounded symbolic model checking of the BLS decoders through the cgo boundary: the Go wrappers (go/ssa) and the repository C glue (clang LLVM-IR: E1/E2/Fp/Fp2/Fr read and write) are executed on fully symbolic byte strings of the exact lengths and on every other length in the bound; z3 decides that acceptance implies re-encoding to exactly the input, that the accepted private scalars are exactly [1, r-1] (schoolbook reference), the rejection class, and the identity flag.',
             note='Trusted: BLST field primitives as contracts (exact add/sub/neg/compare; uninterpreted Montgomery product, square root, sign with field axioms), subgroup check as an uninterpreted predicate, clang -O0 IR standing for the gcc build (counterexamples are replayed on the real build). ECDSA decoders and the G2 coefficient order versus the cited format are not covered yet.'),
 'C07': dict(design='6.7', text='Relational bounded symbolic model checking of one Feldman-VSS-Qual dealer instance run as a product of two honest participants (real go/ssa, curve operations uninterpreted): for every combination of a Byzantine dealer vector kind, per-participant share kinds, delivery orders and complaint answers from a message grammar, z3 decides that both participants return the same verdict class, the same group key and public-share vector, and that no honest participant is flagged or disqualified.',
             note='Scope smaller than the property: n=4, t=1, one dealer instance (Joint-Feldman = n such instances plus a linear sum, not run as a product), grammar of message kinds rather than all byte strings, share/vector algebra uninterpreted with honest-dealing axioms, network assumptions encoded by the harness.'),
 'C08': dict(design='6.8', text='Bounded symbolic model checking of the real DKG handlers (plain Feldman VSS and Feldman-VSS-Qual, participant and dealer roles) over a message grammar with symbolic contents: complaint built at most once, only the Byzantine dealer is ever flagged/disqualified, the dealer answers each first complaint exactly once, every documented disqualification cause leads to a DKG-failure at End, plain VSS returns keys only for a valid vector with a matching share, in both delivery orders and with duplicates; panics are violations.',
             note='n in {3,4}, t in {1,2}; kinds of malformed/inconsistent messages enumerated, contents symbolic; parse/check verdicts are uninterpreted functions constrained by honest-dealing axioms (listed in evidence); BLST and the polynomial algebra are outside.'),
 'C10': dict(design='6.10', text='Bounded symbolic model checking of the seven API methods of the three DKG protocols from every automaton state (reached by real calls), both roles, with symbolic indices and message bytes: the returned error class equals the documented automaton, rejected calls leave every field and the callback log unchanged, Running() follows the automaton, End leaves the instance not running; constructors accept exactly the documented ranges (symbolic 64-bit arguments).',
             note='n=3, t=1; histories are represented by the automaton state (the guards read only running/jointRunning and the two timeout flags); restart after End is outside, as in the property.'),
 'C13': dict(design='6.13', text='Bounded symbolic model checking of hash/*.go from the real constructors: for each (fill level, write length) pair and each API sequence the digest bytes produced by the sponge driver, KMAC framing and SHA-2 wrappers are proved equal, for all message/key contents, to references written from FIPS 202 and SP 800-185 over the same uninterpreted permutation / cSHAKE / SHA-2 stream function; left_encode/right_encode for every 64-bit value, bytepad for every length up to the bound.',
             note='Trusted: Keccak-f[1600] (uninterpreted; the amd64 assembly is outside), SHA-2 compression and cSHAKE internals (absorb-stream model), go/ssa + executor. Bounds: lengths as listed in evidence; contents unbounded (symbolic).'),
 'C14': dict(design='6.14', text='Bounded symbolic model checking of random/chacha20.go together with the real buffering code of x/crypto/chacha20: seeds, customizers and buffer contents are symbolic, read-size sequences come from a boundary set, the restore point is a symbolic 64-bit counter. z3 decides that every output byte is the byte of the RFC 8439 stream position it should be, relative to an uninterpreted block function.',
             note='Trusted: the ChaCha20 block function (uninterpreted, shared by code and reference); streams < 2^38 bytes; read sizes from the stated set; go/ssa and our executor. Evidence lists functions, bounds, queries.'),
 'C15': dict(design='6.15', text='Bounded symbolic model checking of random/rand.go: UintN for a fully symbolic 64-bit n over an arbitrary byte tape (range, independence from stale buffer bytes, exact uniformity as a solver-checked bijection between preimage sets); Permutation/SubPermutation/Shuffle/Samples for small n with symbolic tapes (validity, swap discipline, injectivity of tape -> outcome).',
             note='Trusted: go/ssa + executor; rejection loop unwound a stated number of attempts; n bounded for the permutation helpers; probability statements follow from the proved bijections outside the solver.'),
}
NA_REASON = 'check not built yet in this round of work (planned in DESIGN.md); no claim is made'
def main():
    checks = []
    for pid in ALL:
        if pid in CHECKS:
            c = CHECKS[pid]
            checks.append({
                'property_id': pid,
                'quick_cmd': './check %s --tier quick' % pid,
                'thorough_cmd': './check %s --tier thorough' % pid,
                'evidence_file': 'evidence/%s.json' % pid,
                'replay_cmd_template': 'sh {path}/run.sh',
                'engine': 'symex',
                'level_claimed': {'category': c.get('level', 'model_checking'), 'text': c['text'], 'design_ref': 'DESIGN.md section ' + c['design']},
                'level_note': c['note'],
                'technique': c.get('tech', TECH),
            })
    na = [{'property_id': p, 'reason': NA.get(p, NA_REASON)} for p in ALL if p not in CHECKS]
    m = {
        'version': 1,
        'setup_cmd': 'sh ./setup.sh',
        'hooks': {'guard': 'verif_harness', 'enable': 'harness files are injected with go/packages Overlay and `go test -overlay -tags verif_harness`; nothing is written under /repo',
                  'baseline_off_cmd': "cd /repo && go test -mod=mod -vet=off -count=1 -timeout 25m ./...", 'source_commits': [], 'add_only': True},
        'engines': [{'name': 'symex', 'path': 'symex/', 'serves_properties': sorted(CHECKS), 'kind_free_text': 'symbolic executor for Go SSA and LLVM IR (Python + z3), front-ends regenerate the encoding from /repo on every run'}],
        'checks': checks,
        'not_applicable': na,
        'notes': 'All checks are bounded (bounds in each evidence file); none is a proof. See DESIGN.md.',
    }
    json.dump(m, open(os.path.join(V, 'MANIFEST.json'), 'w'), indent=1)
NA = {}
if __name__ == '__main__':
    main()
