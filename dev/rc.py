# run a case with opts: rc.py pkg fn setup 'optsjson' args...
import sys, time, json
sys.path.insert(0,'/verif')
from symex import driver, core, checklib
from symex.checklib import Case
ssa = driver.dump_ssa()
pkg,name,setup,opts=sys.argv[1:5]; rest=sys.argv[5:]
opts=json.loads(opts)
if 'big_len_set' in opts: opts['big_len_set']=set(opts['big_len_set'])
args=[int(x) if x.lstrip('-').isdigit() else (x=='True') for x in rest]
c = Case('t',pkg,name,args,opts=opts)
t=time.time()
r = checklib._run_case((ssa,c,60000,0,setup))
print(round(time.time()-t,2), 'paths',r['paths'], r['status'], [ (v['kind'],v['msg']) for v in r['violations'][:4]], r['unsupported'][:3], r['inconclusive'][:3], {k:v for k,v in r['labels'].items() if k.startswith('reach')})
