#!/bin/sh
# usage: dev/runall.sh [tier] [ids...] : run checks sequentially against /repo, log a summary line each
tier=${1:-quick}; shift
ids=${@:-C01 C02 C03 C04 C05 C06 C07 C08 C09 C10 C11 C12 C13 C14 C15 C16 C17 C18 C19 C20}
cd "$(dirname "$0")/.."
for p in $ids; do
  [ -f checks/$(echo $p | tr 'C' 'c').py ] || continue
  s=$(date +%s)
  timeout 3000 ./check $p --tier $tier > ${RUNALL_LOGDIR:-/tmp}/runall_$p.log 2>&1; rc=$?
  e=$(date +%s)
  echo "$p rc=$rc $((e-s))s $(tail -1 ${RUNALL_LOGDIR:-/tmp}/runall_$p.log | cut -c1-160)"
  grep "^VIOLATION\|^INCONCLUSIVE\|^BROKEN\|^KNOWN" ${RUNALL_LOGDIR:-/tmp}/runall_$p.log | cut -c1-200 | head -5
done
