#!/bin/sh
# offline setup: build the Go SSA dumper; warm the caches.
set -e
cd "$(dirname "$0")"
export PATH=/opt/veriftools/go1.26.8/bin:$PATH GOFLAGS=-mod=mod GOPROXY=off GOSUMDB=off GOTOOLCHAIN=local
mkdir -p .cache evidence
(cd symex/gossa && go build -o ../../.cache/gossa .)
/opt/veriftools/pyvenv/bin/python3 -c "import z3; print('z3', z3.get_version_string())"
echo setup ok
