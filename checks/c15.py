# C15: sampling helpers — range, validity, exact uniformity (DESIGN 6.15)
from symex.checklib import Case, run_check

FUNCS = ['(*random.genericPRG).UintN', '(*random.genericPRG).Permutation', '(*random.genericPRG).SubPermutation',
         '(*random.genericPRG).Shuffle', '(*random.genericPRG).Samples']

def run(tier, seed):
    thorough = tier == 'thorough'
    nmax = 6 if thorough else 5      # (n = 7 is 5040 tapes per case: about 45 minutes for the tier, beyond its budget)
    reads = 4 if thorough else 3
    longrun = 72 if thorough else 40
    cases = [
        Case('UintN_contract', 'random', 'zzC15_UintN_contract', [reads]),
        Case('UintN_uniform', 'random', 'zzC15_UintN_uniform'),
        Case('negative', 'random', 'zzC15_negative'),
    ]
    for n in ((3, 5, 6, 7, 129, 257, (1 << 32) + 1, (1 << 63) + 1) if thorough else (3, 6, 257, (1 << 63) + 1)):
        cases.append(Case('UintN_long_n%d' % n, 'random', 'zzC15_UintN_long', [n, longrun]))
    for n in range(0, nmax + 1):
        cases.append(Case('Permutation_n%d' % n, 'random', 'zzC15_Permutation', [n]))
    smax = nmax if thorough else 4
    for n in range(0, smax + 1):
        for m in range(-1, n + 2):
            cases.append(Case('Samples_n%d_m%d' % (n, m), 'random', 'zzC15_Samples', [n, m, False]))
            if m <= min(n, 3) or thorough:
                cases.append(Case('SubPermutation_n%d_m%d' % (n, m), 'random', 'zzC15_SubPermutation', [n, m]))
        cases.append(Case('Shuffle_n%d' % n, 'random', 'zzC15_Samples', [n, n, True]))
    for (n1, m1, n2, m2) in ([(4, 4, 2, 2), (3, 1, 2, 1), (4, 2, 3, 3), (2, 2, 3, 2)] + ([(5, 5, 3, 3), (5, 2, 4, 4)] if thorough else [])):
        for which in (0, 1, 2):
            cases.append(Case('history_%d_%d_%d_%d_w%d' % (n1, m1, n2, m2, which), 'random', 'zzC15_history', [n1, m1, n2, m2, which]))
    # heavy cases first for better load balance
    cases.sort(key=lambda c: -(c.args[0] if c.args and isinstance(c.args[0], int) else 0))
    return run_check('C15', cases, tier, seed,
        functions=FUNCS,
        bounds={'UintN': 'n fully symbolic (64 bit), buffer pre-state symbolic, rejection loop unwound %d attempts (longer tapes cut by an assumption; each attempt is independent fresh tape)' % reads,
                'UintN long runs': 'concrete n in a boundary set (3, 6, 257, 2^63+1; thorough adds 5, 7, 129, 2^32+1), every tape with up to %d consecutive attempts: the result is the first in-range masked sample' % longrun,
                'Permutation/SubPermutation/Samples/Shuffle': 'n <= %d, all m in [-1, n+1], every tape without rejected attempts (rejections re-draw independently)' % nmax,
                'oracle': 'for Permutation / SubPermutation / Samples / Shuffle the oracle is the documented algorithm (inside-out / prefix Fisher-Yates with one UintN draw per step, in order): the tape is recovered from the output, which together with the UintN lemmas gives equal likelihood. An exactly uniform implementation that consumed the source differently would be reported by this check and would need a new bijection lemma',
                'outside': 'n > %d for the permutation bijection; probability statements are derived outside the solver from the bijections proved here' % nmax},
        assumptions=['randCore.Read returns arbitrary bytes (tape); UintN bijection lemma quantifies over tapes accepted at the first attempt',
                     'size/mask loops of UintN are unwound completely (<= 8 and <= 64 iterations by construction; the engine forks until the loop condition is decided false)'],
        trusted=['encoding/binary.LittleEndian.Uint64 is executed (not stubbed)', 'fmt.Errorf stub: returns a fresh non-nil error'],
        explanation='bounded symbolic execution of the real go/ssa of random/rand.go with z3 deciding every assertion over all values of n, buffer and tape within the bounds')
