# C14: ChaCha20 PRG stream position and Store/Restore (DESIGN 6.14)
import itertools
from symex.checklib import Case, run_check
from symex import stubs_chacha

FUNCS = ['random.NewChacha20PRG', '(*random.chachaCore).Read', '(*random.chachaPRG).Store', 'random.RestoreChacha20PRG',
         '(*chacha20.Cipher).XORKeyStream', '(*chacha20.Cipher).SetCounter', 'chacha20.newUnauthenticatedCipher']

def run(tier, seed):
    thorough = tier == 'thorough'
    if thorough:
        sizes = [0, 1, 2, 63, 64, 65, 127, 128, 129, 200]
        r3s = [0, 1, 63, 64, 65, 129]
        custs = list(range(0, 13))
    else:
        sizes = [0, 1, 63, 64, 65, 128, 130]
        r3s = [1, 64, 65]
        custs = [0, 7, 12]
    cases = []
    for cl in custs:
        for r1, r2 in itertools.product(sizes, sizes):
            if thorough or cl == 12 or (r1 + r2) % 64 in (0, 1, 63):
                for r3 in r3s:
                    cases.append(Case('stream_c%d_%d_%d_%d' % (cl, r1, r2, r3), 'random', 'zzC14_stream', [cl, r1, r2, r3]))
    for (r1, r2) in ([(10, 100), (0, 1), (64, 64), (65, 63), (1, 200)] if thorough else [(10, 100), (64, 65)]):
        for cl in ((0, 12) if thorough else (12,)):
            cases.append(Case('checkpoints_c%d_%d_%d' % (cl, r1, r2), 'random', 'zzC14_checkpoints', [cl, r1, r2]))
    for r in ([1, 64, 65, 130, 200] if thorough else [1, 65, 130]):
        cases.append(Case('restore_any_r%d' % r, 'random', 'zzC14_restore_any', [r]))
    for sl in range(0, 41 if not thorough else 70):
        cases.append(Case('len_seed%d' % sl, 'random', 'zzC14_lengths', [sl, 12, 52 if sl % 8 == 0 else 51]))
    for cl in range(0, 30):
        cases.append(Case('len_cust%d' % cl, 'random', 'zzC14_lengths', [32, cl, 51]))
    for stl in range(0, 101 if thorough else 61):
        if stl != 52:
            cases.append(Case('len_state%d' % stl, 'random', 'zzC14_lengths', [32, 3, stl]))
    return run_check('C14', cases, tier, seed, setup='symex.stubs_chacha:install_case',
        functions=FUNCS,
        bounds={'stream': 'seed/customizer/buffer contents fully symbolic; customizer lengths %s; read-size triples over %s (third read %s); Store/Restore at the position after two reads' % (custs, sizes, r3s),
                'restore_any': 'stored counter c symbolic 64-bit with c + r + 64 < 2^38 (block part not case-split, c mod 64 forked into all 64 values)',
                'lengths': 'seed lengths 0..%d, customizer lengths 0..29, state lengths 0..%d, contents symbolic' % (40 if not thorough else 69, 100 if thorough else 60),
                'outside': 'streams beyond 2^38 bytes (32-bit block counter cycles; documented caller responsibility); the ChaCha20 block function versus RFC 8439; read sizes outside the listed set (the Read code has exactly two paths split at 64)'},
        assumptions=['bytes output < 2^38 (RFC 8439 32-bit block counter)'],
        trusted=stubs_chacha.TRUSTED,
        explanation='bounded symbolic execution of random/chacha20.go and of the buffering code of x/crypto/chacha20 (XORKeyStream, SetCounter, constructor); the block function is one uninterpreted function shared by code and reference, so the assertions say: byte i of the output is byte (pos+i) mod 64 of block floor((pos+i)/64)')
