# C20: results do not depend on the build configuration (DESIGN 6.20, reduced scope)
import os, json, hashlib, time
from symex.checklib import Case, run_check, get_prog, merge_evidence
from symex import driver, stubs_hash, cstubs, stubs_big
from checks import c13

PORTABLE = [('-D__ADX__', '-D__BLST_PORTABLE__'), ('-D__BLST_PORTABLE__',)]

def nocgo_identity():
    """(d) the Go code of the non-BLS functionality is the same SSA with and without cgo: every result the other
    checks establish about ecdsa.go, sign.go, common.go, hash/ and random/ transfers to the no_cgo build"""
    t0 = time.time()
    a = get_prog(driver.dump_ssa())                                   # default (cgo) build, with harness overlay
    b = get_prog(driver.dump_ssa(tags='no_cgo', cgo=False, name='ssa_nocgo'))
    files = ('/ecdsa.go', '/sign.go', '/common.go', '/hash/', '/random/', '/thresholdsign.go', '/dkg.go')
    same, diff, only = [], [], []
    for name, fb in b.funcs.items():
        pos = fb.get('pos', '')
        if 'blocks' not in fb or not name.startswith(('github.com/onflow/crypto', '(github.com/onflow/crypto', '(*github.com/onflow/crypto')):
            continue
        if not any(f in pos for f in files) or '/no_cgo.go' in pos:
            continue
        fa = a.funcs.get(name)
        if fa is None or 'blocks' not in fa:
            only.append(name)
            continue
        ha = hashlib.sha256(json.dumps(fa['blocks'], sort_keys=True, default=str).encode()).hexdigest()
        hb = hashlib.sha256(json.dumps(fb['blocks'], sort_keys=True, default=str).encode()).hexdigest()
        (same if ha == hb else diff).append(name)
    res = {'case': 'nocgo_ssa_identity', 'fn': '', 'pkg': 'crypto', 'args': [], 'paths': 1, 'status': {'ok': 1},
           'stats': {'paths': 1, 'queries': 0, 'sat': 0, 'unsat': 0, 'unknown': 0, 'solver_s': 0.0, 'assert_queries': len(same) + len(diff), 'instrs': 0},
           'violations': [], 'unsupported': [], 'inconclusive': [], 'reached': 1, 'asserts': len(same) + len(diff), 'called': [], 'labels': {},
           'sample': {'case': 'nocgo_ssa_identity', 'functions_with_identical_ssa': len(same), 'functions_that_differ': diff[:20], 'only_in_no_cgo_build': only[:20]},
           'solver_s': 0.0, 'wall_s': time.time() - t0}
    for n in diff:
        res['inconclusive'].append('SSA of %s differs between the cgo and the no_cgo build (results about it do not transfer automatically)' % n)
    return res, len(same), diff

def run(tier, seed):
    thorough = tier == 'thorough'
    t0 = time.time()
    HS = 'symex.stubs_hash:install_case'
    sponge = c13.sponge_cases(thorough)
    if not thorough:
        sponge = sponge[::3]
    rc = 0
    # (a) + (b): purego build: xor_generic.go helpers under the same sponge lemmas, and the Go permutation = FIPS 202
    kl = [Case('keccakf_rounds_%d_%d' % (lo, hi), 'hash', 'zzC20_keccakf', [lo, hi], opts={'setup': 'symex.keccak_lemma:install_case'}) for (lo, hi) in ((1, 4), (5, 8), (9, 12), (13, 16), (17, 20), (21, 24))]
    rc |= run_check('C20', kl + list(sponge), tier, seed, setup=HS, tags='verif_harness,purego', ssa_name='ssa_purego', evidence_name='C20_purego',
        functions=['hash.keccakF1600 (pure Go, hash/keccakf.go)', 'hash.xorIn / hash.copyOut / storageBuf (xor_generic.go)', 'spongeState.write / permute / padAndPermute / sum'],
        bounds={'configuration': '-tags purego (Go permutation, generic xor helpers)', 'permutation': 'all 2^1600 states: 24 per-round lemmas (600 lane equalities) under the lane layout discovered by one concrete run; round constants and rotation offsets of FIPS 202 section 3.2',
                'sponge': 'the C13 sponge cases (%d of them) re-proved against the same FIPS 202 reference over the uninterpreted permutation' % len(sponge)},
        assumptions=['each Keccak round is a bijection, so cutting the execution at round boundaries and continuing from fresh lanes loses no reachable state'],
        trusted=stubs_hash.TRUSTED[:1],
        explanation='symbolic execution of the purego configuration: the driver lemmas are proved against the same reference as in the default configuration (hence equal results, by transitivity), and the Go permutation itself is proved equal to FIPS 202 round by round')
    # (a) default build: the same sponge lemmas with the unaligned helpers
    rc |= run_check('C20', list(sponge), tier, seed, setup=HS, evidence_name='C20_default',
        functions=['hash.xorIn / hash.copyOut / storageBuf.asBytes (xor_unaligned.go, unsafe casts read as little-endian loads)', 'spongeState.write / permute / padAndPermute / sum'],
        bounds={'configuration': 'default amd64 build (unaligned xor helpers; the permutation is the amd64 assembly, uninterpreted)', 'sponge': 'same cases as in the purego part'},
        trusted=stubs_hash.TRUSTED[:1],
        explanation='same lemmas, default configuration')
    # (c) the repository's C glue compiled with the portable macro sets, (d) SSA identity of the non-BLS code
    cc = []
    for di, defs in enumerate(PORTABLE):
        O = {'setup': 'symex.setup_c:with_c', 'c_defs': defs}
        for n in ([48] if not thorough else [1, 47, 48, 49]):
            cc.append(Case('cfg%d_E1_canonical_%d' % (di, n), 'crypto', 'zzC05_E1_canonical', [n], opts=dict(O)))
        for n in ([96] if not thorough else [1, 95, 96, 97]):
            cc.append(Case('cfg%d_E2_canonical_%d' % (di, n), 'crypto', 'zzC05_E2_canonical', [n], opts=dict(O)))
            cc.append(Case('cfg%d_BLS_pubkey_%d' % (di, n), 'crypto', 'zzC05_BLS_pubkey', [n, False], opts=dict(O)))
        for n in (0, 31, 32, 33):
            cc.append(Case('cfg%d_BLS_privkey_%d' % (di, n), 'crypto', 'zzC05_BLS_privkey', [n], opts=dict(O)))
        for n in ((1, 32, 48, 64, 65) if not thorough else range(1, 100)):
            cc.append(Case('cfg%d_mapToFr_%d' % (di, n), 'crypto', 'zzC12_mapToFr', [n], opts={'setup': 'symex.setup_c:with_galg_bytes', 'c_defs': defs}))
        cc.append(Case('cfg%d_keygen_bls' % di, 'crypto', 'zzC12_bls', [32], opts={'setup': 'symex.setup_c:with_galg_bytes', 'c_defs': defs}))
    nres, nsame, ndiff = nocgo_identity()
    rc |= run_check('C20', cc, tier, seed, setup='symex.setup_c:with_c', evidence_name='C20_cglue', pre_results=[nres], replay_env='export CGO_CFLAGS="-O2 -D__BLST_PORTABLE__"   # the README portable build',
        functions=['C:E1_read_bytes / E1_write_bytes / E2_read_bytes / E2_write_bytes / Fr_read_bytes / Fr_star_read_bytes / map_bytes_to_Fr / Fr_from_be_bytes compiled with ' + ' and with '.join(' '.join(d) for d in PORTABLE)],
        bounds={'configurations': 'LLVM IR of the four C units compiled with the default cgo flags plus %s (the README portable build) -- the same C05 / C12 lemmas as for the default -D__ADX__ IR' % ' / '.join(' '.join(d) for d in PORTABLE),
                'no_cgo': '%d functions of ecdsa.go, sign.go, common.go, hash/ and random/ have byte-identical SSA in the CGO_ENABLED=0 -tags no_cgo build and in the default build (%d differ)' % (nsame, len(ndiff)),
                'outside': 'equality of results between the ADX and the portable ASSEMBLY and between the amd64 Keccak assembly and the Go permutation (no semantics for those instruction streams here): BLST primitives are identified by role (mulx_mont_384 = mul_mont_384 ...), so only a configuration-specific slip in the glue or in the Go helpers is detected; DKG message transcripts'},
        assumptions=['BLST primitives selected by the macro sets implement the same contracts (trusted base of C05)'],
        trusted=cstubs.TRUSTED_A + stubs_big.TRUSTED,
        explanation='the decoder / reduction lemmas of C05 and C12 re-proved on the IR of the portable configurations: each configuration equals the same reference, hence they equal each other; plus a syntactic SSA comparison for the no_cgo build')
    # (e) the non-BLS functionality re-proved on the CGO_ENABLED=0 -tags no_cgo build (the ECDSA harnesses compile
    # there; the BLS ones do not exist in that build): key generation bounds and derivation, decoders, Sign / Verify
    blens = set([32, 31, 1])
    EO = {'big_len_set': blens}
    nc = []
    for algo in (0, 1):
        for n in ((0, 15, 16, 17, 31, 32, 33, 256, 257) if not thorough else list(range(0, 66)) + [255, 256, 257]):
            nc.append(Case('nocgo_keygen_a%d_seed_%d' % (algo, n), 'crypto', 'zzC12_ecdsa', [algo, n], opts=EO))
        for n in (31, 32, 33):
            nc.append(Case('nocgo_privkey_a%d_%d' % (algo, n), 'crypto', 'zzC05_ecdsa_private', [algo, n], opts=EO))
        for n in (63, 64, 65):
            nc.append(Case('nocgo_pubkey_a%d_%d' % (algo, n), 'crypto', 'zzC05_ecdsa_public', [algo, n, False], opts=EO))
        for n in (32, 33, 34):
            nc.append(Case('nocgo_pubkey_compressed_a%d_%d' % (algo, n), 'crypto', 'zzC05_ecdsa_public', [algo, n, True], opts=EO))
        for h in (0, 2):
            nc.append(Case('nocgo_verify_a%d_h%d' % (algo, h), 'crypto', 'zzC11_verify', [algo, 64, h], opts=EO))
        nc.append(Case('nocgo_sign_a%d' % algo, 'crypto', 'zzC11_sign', [algo, 0], opts=EO))
        nc.append(Case('nocgo_errors_a%d' % algo, 'crypto', 'zzC11_errors', [algo], opts=EO))
    rc |= run_check('C20', nc, tier, seed, setup='symex.setup_c:with_c', tags='verif_harness,no_cgo', cgo=False, ssa_name='ssa_nocgo_h', evidence_name='C20_nocgo',
        replay_env='export CGO_ENABLED=0   # the no_cgo build',
        functions=['crypto.GeneratePrivateKey / (*ecdsaAlgo).generatePrivateKey / decodePrivateKey / decodePublicKey / decodePublicKeyCompressed / Sign / Verify in the CGO_ENABLED=0 -tags no_cgo build'],
        bounds={'configuration': 'CGO_ENABLED=0 -tags no_cgo: the same ECDSA lemmas as C12 (key generation: seed-length bounds 32..256 as literals, HKDF derivation), C05 (decoders) and C11 (Sign / Verify glue) on the SSA of that build',
                'seed lengths': 'boundary set incl. 15, 16, 17, 31, 32, 33, 256, 257 (thorough: 0..65, 255..257)'},
        assumptions=['same as C11 / C12 (uninterpreted ECDSA relation, HKDF as a function of its arguments)'],
        trusted=stubs_big.TRUSTED,
        explanation='each configuration equals the same reference (documented bounds and derivations), hence the configurations equal each other')
    merge_evidence('C20', ['C20_purego', 'C20_default', 'C20_cglue', 'C20_nocgo'], tier, seed, t0)
    return 1 if rc else 0
