# C11: ECDSA verification exactness at the glue level (DESIGN 6.11)
from symex.checklib import Case, run_check
from symex import stubs_big, stubs_ecdsa

FUNCS = ['(*crypto.prKeyECDSA).Sign', '(*crypto.prKeyECDSA).signHash', '(*crypto.pubKeyECDSA).Verify', '(*crypto.pubKeyECDSA).verifyHash',
         '(*crypto.ecdsaAlgo).signatureFormatCheck', 'crypto.SignatureFormatCheck', 'crypto.bitsToBytes', 'crypto.newSigner']

def run(tier, seed):
    thorough = tier == 'thorough'
    lens = set([32, 31, 30, 17, 16, 2, 1, 0]) if thorough else set([32, 31, 1])
    O = {'big_len_set': lens}
    cases = []
    siglens = list(range(0, 131)) if thorough else [0, 1, 32, 63, 64, 65, 96, 128]
    hashers = [0, 1, 2, 3, 4]
    for algo in (0, 1):
        for h in hashers:
            cases.append(Case('verify_a%d_h%d_64' % (algo, h), 'crypto', 'zzC11_verify', [algo, 64, h], opts=O))
            cases.append(Case('sign_a%d_h%d' % (algo, h), 'crypto', 'zzC11_sign', [algo, h], opts=O))
        for n in siglens:
            if n != 64:
                cases.append(Case('verify_a%d_len%d' % (algo, n), 'crypto', 'zzC11_verify', [algo, n, 0], opts=O))
        cases.append(Case('errors_a%d' % algo, 'crypto', 'zzC11_errors', [algo], opts=O))
        cases.append(Case('twin_a%d' % algo, 'crypto', 'zzC11_changes', [algo], opts=O))
        cases.append(Case('overflow_s_a%d' % algo, 'crypto', 'zzC11_overflow', [algo], opts=O))
    cases.sort(key=lambda c: 0 if c.fn == 'zzC11_sign' else 1)
    return run_check('C11', cases, tier, seed, setup='symex.setup_c:with_c',
        functions=FUNCS,
        bounds={'signature': 'every byte of a 64-byte string symbolic; other lengths %s' % ('0..130' if thorough else str(siglens)),
                'key': 'private key = any 32 symbolic bytes accepted by DecodePrivateKey, both curves',
                'message': '2 symbolic bytes (the glue does not branch on the message; hashing is a stream model)',
                'hashers': 'SHA2-256, SHA3-256, SHA2-384, KMAC128 with 40-byte output, Keccak-256; 31-byte KMAC and nil for the error paths',
                'big-endian lengths': 'minimal byte lengths of r, s, d, X, Y explored: %s (other lengths cut by a stated assumption; they take the same copy-with-offset code with a different offset)' % sorted(lens),
                'outside': 'the elliptic-curve arithmetic of crypto/ecdsa, crypto/ecdh and btcec: the ECDSA equation is one uninterpreted relation shared by Sign, Verify and the reference'},
        assumptions=['crypto/ecdsa.Sign returns (r, s) with 1 <= r, s < n that satisfy the relation for the leftmost 256 bits of the digest it was given',
                     'crypto/ecdsa.Verify(pub, h, r, s) = (1 <= r, s < n) and relation(curve, pub, leftmost 256 bits of h, r, s)',
                     'minimal byte lengths of big integers restricted to the listed set'],
        trusted=stubs_big.TRUSTED + stubs_ecdsa.TRUSTED,
        explanation='bounded symbolic execution of the real go/ssa of ecdsa.go / sign.go on a big.Int model and an uninterpreted ECDSA relation; z3 decides for all signature bytes that Verify equals the relation applied to exactly (r = sig[:32], s = sig[32:], leftmost 256 bits of the digest of exactly the message under exactly the key and curve), that Sign output is 64 bytes, in range and verifies for every length of r and s, format-check = range predicate, typed errors')
