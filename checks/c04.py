# C04: aggregation homomorphisms (DESIGN 6.4)
from symex.checklib import Case, run_check
from symex import galg, stubs_hash
from checks.c01 import SETUP, ASSUME
M = (1 << 64) - 1

def run(tier, seed):
    thorough = tier == 'thorough'
    cases = [Case('errors', 'crypto', 'zzC04_errors', [])]
    for n in ((1, 2, 3, 4) if thorough else (1, 2, 3)):
        pats = [0] + [p for p in range(2, 1 << n, 2)]
        for p in (pats if thorough else pats[:3]):
            cases.append(Case('agg_n%d_p%d' % (n, p), 'crypto', 'zzC04_aggregate', [n, p]))
    # long lists (beyond any fixed internal buffer): one symbolic scalar repeated, or two alternating
    for (n, k) in ([(65, 1), (130, 1), (300, 1), (600, 1), (20, 2), (40, 2)] if thorough else [(65, 1), (130, 1), (300, 1), (20, 2)]):
        cases.append(Case('wide_n%d_k%d' % (n, k), 'crypto', 'zzC04_wide', [n, k]))
    return run_check('C04', cases, tier, seed, setup=SETUP, timeout_ms=240000,
        functions=['AggregateBLSSignatures', 'AggregateBLSPrivateKeys', 'AggregateBLSPublicKeys', 'RemoveBLSPublicKeys', 'IdentityBLSPublicKey', 'IsBLSSignatureIdentity', 'newPubKeyBLSBLS12381',
                   'C:E1_sum_vector_byte', 'C:E1_sum_vector', 'C:Fr_sum_vector', 'C:E2_sum_vector_to_affine', 'C:E2_subtract_vector', 'C:E2_neg'],
        bounds={'multisets': 'n <= %d symbolic keys with duplicate patterns; sums to zero are covered by the symbolic values (the solver chooses x1 + ... + xn = 0)' % (4 if thorough else 3),
                'long lists': 'lists of 65, 130, 300 (thorough: 600) signatures / keys built from one symbolic scalar, 20 (40) from two: aggregate = (sum of scalars) * generator, removal of all but the first key',
                'shapes': 'reverse order, split into (first, rest), removal of the rest and of all keys', 'outside': 'BLST group law'},
        assumptions=ASSUME, trusted=galg.TRUSTED + stubs_hash.TRUSTED,
        explanation='symbolic execution of the aggregation functions with exact polynomial discrete logs: homomorphism identities become polynomial identities decided by normalisation, identity cases by congruences')
