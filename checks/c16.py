# C16: proofs of possession are sound and domain separated (DESIGN 6.16)
from symex.checklib import Case, run_check
from symex import galg, stubs_hash
from checks.c01 import SETUP, ASSUME

def run(tier, seed):
    thorough = tier == 'thorough'
    cases = [Case('pop_%d' % w, 'crypto', 'zzC16_pop', [w, 0]) for w in (0, 1, 2, 4, 5, 6, 7, 8)]
    for tl in (list(range(0, 129)) if thorough else list(range(0, 65))):
        cases.append(Case('pop_tag%d' % tl, 'crypto', 'zzC16_pop', [3, tl]))
    return run_check('C16', cases, tier, seed, setup=SETUP, timeout_ms=240000,
        functions=['BLSGeneratePOP', 'BLSVerifyPOP', 'AggregateBLSPublicKeys', 'RemoveBLSPublicKeys', 'popKMAC (package initialiser)', 'NewExpandMsgXOFKMAC128', 'internalExpandMsgXOFKMAC128', 'hash.NewKMAC_128', 'hash.encodeString', 'hash.bytepad', '(*kmac128).ComputeHash'],
        bounds={'tags': 'every application tag of length %s, contents symbolic' % ('0..128' if thorough else '0..64'), 'candidates': 'c*g1 with symbolic c', 'keys': 'from a private key, the identity key, and key objects obtained by aggregation / removal (same key, identity by removing all keys, identity by cancelling keys, removal from the identity key), and a key decoded from a buffer that is overwritten afterwards',
                'outside': 'independence of differently keyed KMAC instances (random-oracle assumption: different absorbed prefixes give unrelated outputs)'},
        assumptions=ASSUME, trusted=galg.TRUSTED + stubs_hash.TRUSTED,
        explanation='symbolic execution of the PoP functions down to the byte sequences absorbed by cSHAKE: for every tag the KMAC key strings of the two ciphersuites differ, hence (collision resistance) the hash-to-curve inputs differ, hence (formal hash discrete logs) the verification polynomial cannot vanish')
