# C09: no exported function panics or corrupts memory on untrusted input (DESIGN 6.9)
import json, re
from symex.checklib import Case, run_check, get_prog
from symex import driver, galg, stubs_hash, stubs_big, stubs_ecdsa
from checks import dkgcommon

GA = 'symex.setup_c:with_galg_all'
GB = 'symex.setup_c:with_galg_bytes'
WC = 'symex.setup_c:with_c'
HS = 'symex.stubs_hash:install_case'
CH = 'symex.stubs_chacha:install_case'
PKGS = ('github.com/onflow/crypto', 'github.com/onflow/crypto/hash', 'github.com/onflow/crypto/random')

# exported entry points that are deliberately not driven, with the reason (anything else that is exported
# and not executed by some case makes the check fail as broken: new API cannot slip by)
EXEMPT = {
    'E2PolynomialImages': 'test-only export without length checks by documentation (benchmark helper); internal callers pass matching lengths (executed through the DKG harnesses)',
}

TEST_HELPERS = ('BasicDistributionTest', 'EvaluateDistributionUniformity', 'EncodePermutation')   # random/utils.go: helpers for test packages (take *testing.T)

def exported_api(prog):
    out = set()
    for name, fn in prog.funcs.items():
        if fn.get('synthetic') or 'blocks' not in fn or name.split('.')[-1] in TEST_HELPERS or 'zz_verif' in str(fn.get('pos', '')):
            continue      # (functions of the harness overlay files are not part of the API)
        m = re.match(r'^\(\*?(github\.com/onflow/crypto(?:/hash|/random)?)\.([A-Za-z0-9_]+)\)\.([A-Za-z0-9_]+)$', name)
        if m:
            typ, meth = m.group(2), m.group(3)
            if meth[0].isupper() and not typ.startswith(('c09', 'fake', 'tape', 'verif', 'zz', 'rec', 'stub', 'dkgRec', 'harness')) and meth not in ('Error', 'Unwrap'):
                out.add(name)
            continue
        m = re.match(r'^(github\.com/onflow/crypto(?:/hash|/random)?)\.([A-Za-z0-9_]+)$', name)
        if m and m.group(2)[0].isupper() and not m.group(2).startswith(('Verif', 'Test', 'Benchmark')):
            out.add(name)
    return out

def run(tier, seed):
    thorough = tier == 'thorough'
    cases = []
    L = [0, 1, 47, 48, 49, 96] + ([2, 24, 95, 97, 192] if thorough else [])
    for sl in L:
        for hk in (0, 1, 2):
            if hk and sl not in (0, 48):
                continue
            cases.append(Case('bls_sv_s%d_h%d' % (sl, hk), 'crypto', 'zzC09_bls_sign_verify', [sl, 2 if sl else 0, hk], opts={'setup': GA}))
    for l1 in (0, 47, 48, 49):
        for l2 in (0, 48):
            cases.append(Case('spock_%d_%d' % (l1, l2), 'crypto', 'zzC09_spock', [l1, l2], opts={'setup': GA}))
    for n in [0, 1, 31, 32, 33, 48, 64, 96, 97] + ([16, 47, 49, 65, 128, 257] if thorough else []):
        cases.append(Case('enum_%d' % n, 'crypto', 'zzC09_enum', [n], opts={'setup': GB, 'big_len_set': set([32, 31])}))
    cases.append(Case('enum_string', 'crypto', 'zzC09_enum_string', [], opts={'setup': GA}))
    cases.append(Case('getters', 'crypto', 'zzC09_getters', [], opts={'setup': GB, 'big_len_set': set([32, 31])}))
    for n in (0, 1, 2, 3):
        for sl in (0, 47, 48, 49):
            for shape in (0, 1, 2, 3, 4, 5):
                if (shape and sl != 48) or (n == 0 and (shape or sl != 48)) or (n == 3 and not thorough and shape in (1, 2, 3)):
                    continue
                cases.append(Case('agg_n%d_l%d_s%d' % (n, sl, shape), 'crypto', 'zzC09_aggregate', [n, sl, shape], opts={'setup': GA}))
    for ns in (0, 1, 2, 3):
        for sl in (0, 1, 47, 48, 49):
            if ns == 0 and sl != 48:
                continue
            cases.append(Case('thr_stateless_n%d_l%d' % (ns, sl), 'crypto', 'zzC09_threshold_stateless', [ns, sl, 32], opts={'setup': GA, 'formal_coeffs': True, 'max_paths': 4000}))
    for sl in (0, 1, 47, 48, 49, 96):
        for tr in (True, False):
            cases.append(Case('thr_stateful_l%d_%s' % (sl, 'trusted' if tr else 'verified'), 'crypto', 'zzC09_threshold_stateful', [sl, tr], opts={'setup': GA, 'formal_coeffs': True}))
    for seedl in (0, 31, 32, 256, 257):
        cases.append(Case('thr_keygen_seed%d' % seedl, 'crypto', 'zzC09_threshold_keygen', [seedl], opts={'setup': GA, 'formal_coeffs': True}))
    cases.append(Case('thr_ctor', 'crypto', 'zzC09_threshold_ctor', [], opts={'setup': GA, 'formal_coeffs': True}))
    # decoders and key generation on every length class (harnesses of C05 / C11 / C12; a panic there is a C09 violation)
    EO = {'setup': WC, 'big_len_set': set([32, 31])}
    for n in [0, 1, 31, 32, 33, 47, 48, 49, 64, 65, 95, 96, 97] + (list(range(2, 31)) if thorough else []):
        cases.append(Case('dec_bls_priv_%d' % n, 'crypto', 'zzC05_BLS_privkey', [n], opts={'setup': WC}))
        cases.append(Case('dec_bls_pub_%d' % n, 'crypto', 'zzC05_BLS_pubkey', [n, False], opts={'setup': WC}))
        for a in (0, 1):
            cases.append(Case('dec_ecdsa_priv_a%d_%d' % (a, n), 'crypto', 'zzC05_ecdsa_private', [a, n], opts=EO))
            cases.append(Case('dec_ecdsa_pub_a%d_%d' % (a, n), 'crypto', 'zzC05_ecdsa_public', [a, n, False], opts=EO))
            cases.append(Case('dec_ecdsa_cpub_a%d_%d' % (a, n), 'crypto', 'zzC05_ecdsa_public', [a, n, True], opts=EO))
            cases.append(Case('ecdsa_verify_a%d_%d' % (a, n), 'crypto', 'zzC11_verify', [a, n, 0], opts=EO))
    for a in (0, 1):
        cases.append(Case('ecdsa_errors_a%d' % a, 'crypto', 'zzC11_errors', [a], opts=EO))
        cases.append(Case('ecdsa_sign_a%d' % a, 'crypto', 'zzC11_sign', [a, 3], opts=EO))
    for n in (0, 31, 32, 256, 257):
        cases.append(Case('keygen_bls_%d' % n, 'crypto', 'zzC12_bls', [n], opts={'setup': GB}))
        cases.append(Case('keygen_ecdsa_%d' % n, 'crypto', 'zzC12_ecdsa', [n % 2, n], opts=EO))
    # DKG: every API call from every automaton state, symbolic origin / participant, message bytes symbolic
    mls = [0, 1, 2, 33, 34, 35, 98, 193, 194] if thorough else [0, 1, 34, 193]
    for proto in (0, 1, 2):
        for role in (0, 1):
            for state in range(6):
                if state == 5 and (role == 1 or proto == 0):
                    continue
                for op in range(7):
                    for ml in (mls if op in (3, 4) else [0]):
                        cases.append(Case('dkg_p%d_r%d_s%d_op%d_m%d' % (proto, role, state, op, ml), 'crypto', 'zzC10_step', [proto, role, state, op, ml], opts={'setup': dkgcommon.SETUP}))
        cases.append(Case('dkg_ctor_p%d' % proto, 'crypto', 'zzC10_constructor', [proto], opts={'setup': dkgcommon.SETUP}))
    # DKG message sequences (harnesses of C08): messages that are well-formed for a different phase -- answers before
    # complaints and before the vector, shares after invalid vectors, complaints from disqualified participants
    import itertools
    M64 = (1 << 64) - 1
    for vk, sk, sf, ak, ek in itertools.product((0, 6), (-1, 0, 1, 2, 4), (False, True), (0, 1, 2), range(1, 6)):
        cases.append(Case('dkgseq_early_v%d_s%d_%d_a%d_e%d' % (vk, sk, sf, ak, ek), 'crypto', 'zzDKG_qual_participant_early', [vk, sk & M64, sf, ak, False, 0, ek], opts={'setup': dkgcommon.SETUP}))
    for vk, sk, sf in itertools.product(range(9), (0, 4, 9), (False, True)):
        cases.append(Case('dkgseq_fvss_v%d_s%d_%d' % (vk, sk, sf), 'crypto', 'zzDKG_fvss_orders', [vk, sk, sf, False, False], opts={'setup': dkgcommon.SETUP}))
    for order in (0, 1, 2):
        cases.append(Case('dkgseq_jf_o%d' % order, 'crypto', 'zzC08_jf_complaints', [order, 2, True], opts={'setup': dkgcommon.SETUP}))
    # hash package
    for k in (0, 1, 15, 16, 17, 200):
        for c in (0, 5):
            cases.append(Case('kmac_ctor_k%d_c%d' % (k, c), 'hash', 'zzC09_kmac_ctor', [k, c, 3 if k != 200 else 170], opts={'setup': HS}))
    # every key length (the key block is padded to a multiple of the rate: boundary effects at 164, 332, 500 ...)
    for k in range(18, 1201 if thorough else 521):
        cases.append(Case('kmac_keylen_%d' % k, 'hash', 'zzC09_kmac_keylen', [k], opts={'setup': HS}))
    for n in (0, 1, 103, 104, 135, 136, 137, 300):
        cases.append(Case('hashers_%d' % n, 'hash', 'zzC09_hashers', [n], opts={'setup': HS}))
    # random package (harnesses of C14 / C15)
    for (s, c, st) in [(32, 0, 52), (0, 0, 0), (31, 12, 51), (33, 13, 53), (32, 12, 52), (64, 24, 100)]:
        cases.append(Case('chacha_lengths_%d_%d_%d' % (s, c, st), 'random', 'zzC14_lengths', [s, c, st], opts={'setup': CH}))
    cases.append(Case('prg_negative', 'random', 'zzC15_negative', []))
    cases.append(Case('prg_uintn', 'random', 'zzC15_UintN_contract', [3]))
    for n in (0, 1, 3):
        cases.append(Case('prg_perm_%d' % n, 'random', 'zzC15_Permutation', [n]))
        cases.append(Case('prg_samples_%d' % n, 'random', 'zzC15_Samples', [n, n, True]))
        cases.append(Case('prg_subperm_%d' % n, 'random', 'zzC15_SubPermutation', [n, max(n - 1, 0)]))
    cases.append(Case('chacha_stream', 'random', 'zzC14_stream', [0, 1, 64, 65], opts={'setup': CH}))
    cases.append(Case('chacha_restore', 'random', 'zzC14_restore_any', [3], opts={'setup': CH}))
    cases.sort(key=lambda c: 0 if c.fn in ('zzC09_threshold_stateful', 'zzC09_aggregate', 'zzC09_threshold_stateless') else 1)

    # API coverage accounting: every exported function / method of the three packages must be executed by some case
    prog = get_prog(driver.dump_ssa())
    api = exported_api(prog)
    cov = {}
    def post(results):
        called = set()
        for r in results:
            called.update(r.get('called', []))
        missing = sorted(a for a in api if a not in called and a.split('.')[-1] not in EXEMPT and not any(a.endswith('.' + e) for e in EXEMPT))
        cov['api_total'] = len(api)
        cov['api_executed'] = len([a for a in api if a in called])
        cov['api_exempt'] = {k: v for k, v in EXEMPT.items()}
        cov['api_missing'] = missing
        return ['exported entry point without a harness: %s' % m for m in missing]
    return run_check('C09', cases, tier, seed, post_results=post, extra_cov=cov,
        functions=sorted(api),
        bounds={'byte-slice lengths': 'signatures / proofs / shares %s; keys and decoder inputs 0,1,31..33,47..49,64,65,95..97; seeds 0,31,32,256,257; DKG messages %s; hash inputs around the sponge rates; contents symbolic (for 48-byte signatures inside list operations a correct signature is used: contents are the subject of C01-C06)' % (L, mls),
                'integers and enums': 'fully symbolic 64-bit values for algorithm enums, sizes, thresholds, indices, origins, KMAC output size (< 40 for memory), PRG arguments',
                'lists': '0..3 elements, nil elements, foreign key types, mismatched lengths',
                'DKG sequences': 'the early-answer, share/vector order and Joint-Feldman complaint scenarios of C08 (a panic on any of their paths is a C09 violation)',
                'DKG': 'every API method from every automaton state of the three protocols (n = 3, t = 1), both roles, symbolic origin and message bytes',
                'documented exceptions (assumed away)': 'UintN(0), nil hasher interface values are driven and must give the typed error; nil callbacks / nil processor, memory-linear sizes beyond the bound, no-cgo builds',
                'outside': 'panics inside library code behind stubs (BLST, crypto/ecdsa, x/crypto) on inputs that satisfy their documented preconditions; resource exhaustion'},
        assumptions=dkgcommon.ASSUME + ['each C function behind a stub reads / writes exactly the extents of its contract; the executor bounds-checks every load and store of executed Go and C code against its object'],
        trusted=galg.TRUSTED + stubs_hash.TRUSTED + stubs_big.TRUSTED + stubs_ecdsa.TRUSTED + dkgcommon.TRUSTED,
        explanation='bounded symbolic execution of every exported entry point (go/ssa through cgo into the LLVM IR of the repository C files): Go panic sites (index, slice, nil dereference, failed assertion, explicit panic, division by zero) and out-of-bounds loads/stores in Go and C objects are path terminators reported as violations; z3 decides reachability of each such site over all argument values within the bounds; the harness additionally asserts the documented typed error / false verdict. The set of exported entry points is recomputed from the SSA on every run and compared with the set of functions the cases executed.')
