# C13: hashers and KMAC128 equal their standards for all inputs and chunkings (DESIGN 6.13)
import itertools
from symex.checklib import Case, run_check
from symex import stubs_hash

FUNCS = ['(*hash.spongeState).write', '(*hash.spongeState).padAndPermute', '(*hash.spongeState).sum', '(*hash.spongeState).Reset',
         '(*hash.spongeState).ComputeHash', 'hash.ComputeSHA3_256', 'hash.xorIn', 'hash.copyOut', '(*hash.storageBuf).asBytes',
         'hash.NewKMAC_128', 'hash.encodeString', 'hash.leftEncode', 'hash.rightEncode', 'hash.bytepad',
         '(*hash.kmac128).ComputeHash', '(*hash.kmac128).SumHash', '(*hash.kmac128).Reset', 'hash sha2 wrappers']
RATE = {0: 136, 1: 104, 2: 136}

def sponge_cases(thorough):
    cs = []
    for algo in (0, 1, 2):
        rate = RATE[algo]
        if thorough and algo != 2:
            l1s = list(range(0, rate + 2)) + [2 * rate - 1, 2 * rate, 2 * rate + 1]
            for l1 in l1s:
                for l2 in range(0, 2 * rate + 2):
                    cs.append(Case('split_a%d_%d_%d' % (algo, l1, l2), 'hash', 'zzC13_sponge_split', [algo, l1, l2]))
        else:
            for l1 in sorted(set([0, 1, 7, 8, 9, rate - 9, rate - 8, rate - 1, rate, rate + 1, 2 * rate, 2 * rate + 3])):
                b = l1 % rate
                for l2 in sorted(set([0, 1, 7, 8, rate - b - 1, rate - b, rate - b + 1, rate, rate + 1, 2 * rate, 2 * rate + 1, 3 * rate - b])):
                    if l2 >= 0:
                        cs.append(Case('split_a%d_%d_%d' % (algo, l1, l2), 'hash', 'zzC13_sponge_split', [algo, l1, l2]))
        for off in (range(1, 8) if thorough else (1, 4, 7)):
            for (l1, l2) in ((0, rate), (0, 2 * rate + 3), (3, rate + 5), (rate, rate)):
                cs.append(Case('misaligned_a%d_o%d_%d_%d' % (algo, off, l1, l2), 'hash', 'zzC13_sponge_misaligned', [algo, off, l1, l2]))
        l0s = [0, 1, rate - 1, rate, rate + 5]
        lxs = [0, 1, rate - 1, rate, rate + 1, 2 * rate]
        for l0, lx in itertools.product(l0s, lxs):
            for split in sorted(set([0, lx // 2, lx])):
                for sf in (False, True):
                    if thorough or sf or split == lx // 2:
                        cs.append(Case('api_a%d_%d_%d_%d_%d' % (algo, l0, lx, split, sf), 'hash', 'zzC13_sponge_api', [algo, l0, lx, split, sf]))
    return cs

def kmac_cases(thorough):
    cs = []
    if thorough:
        kls = list(range(0, 401))
        cls = [0, 1, 3, 40]
        ols = [0, 1, 32, 128, 1000]
    else:
        kls = [0, 1, 15, 16, 17, 32, 100, 157, 158, 162, 163, 164, 165, 166, 200, 330, 331, 332]
        cls = [0, 3, 40]
        ols = [0, 1, 32, 128]
    for kl in kls:
        for cl in (cls if kl in (16, 32, 163) or thorough and kl % 50 == 0 else [3]):
            for ol in (ols if kl in (16, 32, 163, 331) else [32]):
                cs.append(Case('kmac_k%d_c%d_o%d' % (kl, cl, ol), 'hash', 'zzC13_kmac', [kl, cl, ol, 5, 10, 20]))
    for (l0, l1, l2) in [(0, 0, 0), (0, 167, 1), (168, 1, 168), (1, 0, 300)]:
        cs.append(Case('kmac_data_%d_%d_%d' % (l0, l1, l2), 'hash', 'zzC13_kmac', [32, 3, 64, l0, l1, l2]))
    cs.append(Case('kmac_negative_size', 'hash', 'zzC13_kmac', [32, 0, (-1) & ((1 << 64) - 1), 1, 1, 1]))
    for ol in ([0, 31, 32, 33, 255, 256, 1000] if thorough else [31, 256]):
        cs.append(Case('kmac_out%d' % ol, 'hash', 'zzC13_kmac', [20, 2, ol, 1, 2, 3]))
    cs.append(Case('encode_all_u64', 'hash', 'zzC13_encode', []))
    for l in range(0, 1201 if thorough else 520):
        cs.append(Case('bytepad_%d' % l, 'hash', 'zzC13_bytepad', [l]))
    for algo in (0, 1):
        for (l0, l1, l2) in [(0, 0, 0), (3, 4, 5), (64, 63, 65), (0, 128, 1)]:
            cs.append(Case('sha2_a%d_%d_%d_%d' % (algo, l0, l1, l2), 'hash', 'zzC13_sha2', [algo, l0, l1, l2]))
    return cs

def run(tier, seed):
    thorough = tier == 'thorough'
    cases = sponge_cases(thorough) + kmac_cases(thorough)
    return run_check('C13', cases, tier, seed, setup='symex.stubs_hash:install_case',
        functions=FUNCS,
        bounds={'sponge': ('every fill level 0..rate and every second-write length 0..2*rate+1 for SHA3-256 and SHA3-384 (contents symbolic); boundary set for Keccak-256' if thorough else
                           'fill levels {0,1,7,8,9,rate-9,rate-8,rate-1,rate,rate+1,2rate,2rate+3} x second-write lengths at the block boundaries (contents symbolic), three algorithms'),
                'api': 'ComputeHash after l0 in {0,1,rate-1,rate,rate+5} junk bytes (optionally a SumHash), x of length {0,1,rate-1,rate,rate+1,2rate}, three splits',
                'kmac': 'key lengths %s, customizer lengths 0..40 (sample), output sizes 0..1000 (sample), negative size; bytepad for every input length 0..%d; left/right_encode for every 64-bit value' % ('0..400' if thorough else 'boundary set incl. 163,331', 1200 if thorough else 519),
                'outside': 'the Keccak-f[1600] permutation (uninterpreted here; see C20 for the pure-Go permutation), SHA-2 compression, cSHAKE internals; messages longer than 3*rate (the absorb loop repeats the fast-path iteration covered here)'},
        assumptions=['keccakF1600 is a function (same input, same output); standard-library stream hashes behave as absorb-streams'],
        trusted=stubs_hash.TRUSTED,
        explanation='bounded symbolic execution of hash/*.go from the real constructors; the reference digests are written from FIPS 202 / SP 800-185 in the harness and evaluated over the same uninterpreted permutation / cSHAKE, so each assertion is an equality of byte terms for all message contents')
