from symex import cstubs_dkg, stubs_dkg, cstubs
TRUSTED = cstubs_dkg.TRUSTED + ['Fr_star_read_bytes and the byte/limb helpers are executed from LLVM IR on exact integer contracts'] 
ASSUME = stubs_dkg.ASSUMPTIONS + ['round-synchronous delivery and reliable broadcast are encoded by the harness (each broadcast is handed to every honest instance in the same round)']
SETUP = 'symex.setup_c:with_dkg'
