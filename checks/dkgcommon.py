from symex import cstubs_dkg, stubs_dkg, cstubs
TRUSTED = cstubs_dkg.TRUSTED + ['Fr_star_read_bytes and the byte/limb helpers are executed from LLVM IR on exact integer contracts'] 
ASSUME = stubs_dkg.ASSUMPTIONS + ['round-synchronous delivery and reliable broadcast are encoded by the harness (each broadcast is handed to every honest instance in the same round)']
SETUP = 'symex.setup_c:with_dkg'

def lemma_cases(thorough, Case):
    """contract lemmas: the REAL dkg_core.c routines behind the uninterpreted DKG layer, under the algebraic group model"""
    import itertools
    O = {'setup': 'symex.setup_c:with_galg'}
    cs = []
    for n in ((1, 2, 3, 4) if thorough else (1, 2, 3)):
        digits = (0, 1, 2, 3) if n <= 2 or (thorough and n == 3) else (0, 1, 2)
        for ks in itertools.product(digits, repeat=n):
            kinds = sum(k << (2 * i) for i, k in enumerate(ks))
            cs.append(Case('lemma_vector_n%d_k%s' % (n, ''.join(map(str, ks))), 'crypto', 'zzDKG_lemma_vector', [n, kinds], opts=dict(O)))
    # ((6,3) and (7,3) do not finish in reasonable time: the share polynomials have degree 3 in up to 7 points)
    for (n, t) in ([(3, 1), (4, 2), (4, 1), (5, 1), (5, 2)] if thorough else [(3, 1), (4, 2)]):
        cs.append(Case('lemma_algebra_n%d_t%d' % (n, t), 'crypto', 'zzDKG_lemma_algebra', [n, t], opts=dict(O)))
    return cs

LEMMA_BOUND = ('contract lemmas for the uninterpreted layer, run on the real dkg_core.c under the algebraic group model: G2_vector_read_bytes accepts a vector of n <= 3 (thorough 4) '
               'entries exactly when every entry is in G2 (entries c*g2, c*g2+T, -(c*g2+T), identity; every combination, including parts outside G2 that cancel) and decodes / re-encodes it faithfully; '
               'Fr_polynomial_image_write, E2_polynomial_images and G2_check_log agree: P(i+1)*g2 = Q(i+1), honest shares verify and no other value does, for (n,t) in {(3,1),(4,2)} (thorough adds (4,1),(5,1),(5,2)), all coefficients symbolic')
