# C10: DKG instances follow the documented single-use state machine (DESIGN 6.10)
from symex.checklib import Case, run_check
from checks import dkgcommon

def run(tier, seed):
    thorough = tier == 'thorough'
    cases = []
    for proto in (0, 1, 2):
        for role in (0, 1):
            for state in range(10):
                if state in (5, 6) and (role == 1 or proto == 0):
                    continue
                for op in (range(7) if state < 7 else (1, 2, 5)):      # (after a forced disqualification: timeouts, End, another one)
                    lens = [0]
                    if op in (3, 4):
                        lens = [0, 1, 2, 34, 193] if thorough else [0, 2, 34]
                    for ml in lens:
                        cases.append(Case('p%d_r%d_s%d_op%d_m%d' % (proto, role, state, op, ml), 'crypto', 'zzC10_step', [proto, role, state, op, ml]))
        cases.append(Case('constructor_p%d' % proto, 'crypto', 'zzC10_constructor', [proto]))
        for role in (0, 1):
            for sl in ((0, 1, 31, 32, 33, 64) if thorough else (0, 31, 32)):
                cases.append(Case('start_seed_p%d_r%d_l%d' % (proto, role, sl), 'crypto', 'zzC10_start_seed', [proto, role, sl]))
    return run_check('C10', cases, tier, seed, setup=dkgcommon.SETUP,
        functions=['Start/NextTimeout/End/HandleBroadcastMsg/HandlePrivateMsg/ForceDisqualify/Running of feldmanVSSstate, feldmanVSSQualState, JointFeldmanState', 'newDKGCommon', 'NewFeldmanVSS', 'NewFeldmanVSSQual', 'NewJointFeldman'],
        bounds={'configuration': 'n = 3, t = 1, dealer and non-dealer roles, three protocols',
                'automaton states': 'new, started, one timeout, two timeouts, ended, started with a disqualified dealer, one timeout with a pending complaint against the dealer; started / one timeout / two timeouts after a ForceDisqualify of an arbitrary participant incl. this one (reached through real calls)',
                'Start seeds': 'lengths 0, 31, 32 (thorough: also 1, 33, 64), contents symbolic, dealer and non-dealer', 'call under test': 'origin / participant index symbolic 64-bit; message bytes symbolic with lengths %s; constructor arguments symbolic 64-bit (Joint-Feldman size <= 6)' % ('0,1,2,34,193' if thorough else '0,2,34'),
                'outside': 'restart after End (left unspecified by the documentation); histories are covered through the automaton state: accept/reject decisions read only running/jointRunning and the two timeout flags, which the enumerated states cover'},
        assumptions=dkgcommon.ASSUME, trusted=dkgcommon.TRUSTED,
        explanation='bounded symbolic execution of the real DKG Go code (go/ssa) with curve operations uninterpreted; the reference automaton is written in the harness from the doc comments; frame condition = field-by-field snapshot equality plus callback count')
