# C19: operations documented as read-only / thread-safe write to nothing shared (DESIGN 6.19)
from symex.checklib import Case, run_check
from symex import galg, stubs_hash, stubs_big, stubs_ecdsa

def run(tier, seed):
    thorough = tier == 'thorough'
    cases = []
    HS = {'setup': 'symex.stubs_hash:install_case'}
    kms = [(16, 0, 0), (16, 0, 3), (20, 5, 0), (32, 170, 4), (163, 1, 200)]
    if thorough:
        kms += [(k, p, m) for k in (16, 17, 164, 331) for p in (0, 1, 167, 168, 169) for m in (0, 1, 168, 400)]
    for (k, p, m) in kms:
        cases.append(Case('kmac_k%d_p%d_m%d' % (k, p, m), 'hash', 'zzC19_kmac', [k, p, m], opts=HS))
    for kind in range(5):
        for m in ((0, 1, 200) if thorough else (1, 200)):
            cases.append(Case('args_h%d_m%d' % (kind, m), 'hash', 'zzC19_args', [kind, m], opts=HS))
    for op in range(8):
        cases.append(Case('bls_op%d' % op, 'crypto', 'zzC19_bls', [op], opts={'setup': 'symex.setup_c:with_galg'}))
    for w in (0, 1, 2):
        cases.append(Case('decoders_%d' % w, 'crypto', 'zzC19_decoders', [w], opts={'setup': 'symex.setup_c:with_c'}))
    lens = set([32, 31, 30, 1]) if thorough else set([32, 31])
    for algo in (0, 1):
        for op in (0, 1):
            cases.append(Case('ecdsa_a%d_op%d' % (algo, op), 'crypto', 'zzC19_ecdsa', [algo, op], opts={'setup': 'symex.setup_c:with_c', 'big_len_set': lens}))
    cases.sort(key=lambda c: 0 if c.fn == 'zzC19_bls' else 1)
    return run_check('C19', cases, tier, seed, replay_flags='-race',
        functions=['(*hash.kmac128).ComputeHash', '(*crypto.prKeyBLSBLS12381).Sign', '(*crypto.pubKeyBLSBLS12381).Verify', 'crypto.BLSVerifyPOP', 'crypto.SPOCKVerify',
                   'crypto.VerifyBLSSignatureOneMessage', 'crypto.VerifyBLSSignatureManyMessages', 'crypto.BatchVerifyBLSSignaturesOneMessage',
                   '(*crypto.prKeyECDSA).Sign', '(*crypto.pubKeyECDSA).Verify', 'C:E1_read_bytes', 'C:E2_read_bytes', 'C:Fr_star_read_bytes', 'C:bls_sign', 'C:bls_verify', 'C:bls_spock_verify', 'C:bls_verifyPerDistinctMessage', 'C:bls_verifyPerDistinctKey', 'C:bls_batch_verify'],
        bounds={'method': 'write-effect check: each listed operation is executed once on symbolic inputs; every store of the Go and C code and every declared mutation of a library object is logged and attributed to its memory object; the assertion is that no object that existed before the call is written',
                'operations': 'KMAC128 ComputeHash (key/prefix/message lengths %s); BLS Sign, Verify, BLSVerifyPOP, SPOCKVerify, VerifyBLSSignatureOneMessage, VerifyBLSSignatureManyMessages, BatchVerifyBLSSignaturesOneMessage with two keys sharing one KMAC hasher; ECDSA Sign / Verify on both curves with per-call hashers' % kms,
                'why this covers schedules': 'two calls that write nothing shared cannot race with each other and are deterministic functions of data nobody writes; goroutine counts and interleavings therefore do not enter',
                'outside': 'stores inside library code behind stubs (crypto/ecdsa, x/crypto cSHAKE internals behind Clone/Write/Read/Reset effects, BLST) follow their declared effect contracts; the lazily cached sk.PublicKey() is a shared write but is not among the listed operations; the fixed-function hashers are documented as not thread-safe and only their arguments are checked'},
        assumptions=['library objects behind stubs: Clone returns a fresh object; Write/Read/Reset mutate the receiver; crypto/ecdsa.Sign/Verify read the key and write nothing shared',
                     'native replay: the operation is run twice concurrently under the Go race detector and the shared objects are compared with reference copies (reflect.DeepEqual)'],
        trusted=galg.TRUSTED + stubs_hash.TRUSTED + stubs_big.TRUSTED + stubs_ecdsa.TRUSTED,
        explanation='symbolic execution of each listed operation with a write log over one shared heap of Go and C objects; z3 decides path feasibility and the functional assertions (the concurrent result equals the sequential one, arguments byte-identical afterwards); the no-shared-write assertion is decided on every feasible path')
