# C06: threshold shares reconstruct the unique group signature (DESIGN 6.6)
import itertools
from symex.checklib import Case, run_check
from symex import galg, stubs_hash
from checks.c01 import SETUP, ASSUME

def run(tier, seed):
    thorough = tier == 'thorough'
    cases = [Case('errors', 'crypto', 'zzC06_errors', [])]
    cfgs = [(2, 1), (3, 1), (3, 2), (4, 2)] + ([(4, 1), (4, 3), (5, 2), (5, 3), (6, 3)] if thorough else [])
    for n, t in cfgs:
        sets = [s for s in range(1, 1 << n) if bin(s).count('1') in (t, t + 1, t + 2)]
        for s in sets:
            k = bin(s).count('1')
            if not thorough and k == t + 2 and n > 3:
                continue
            for rot in ((0, 1) if k >= 2 else (0,)):
                cases.append(Case('stateless_n%d_t%d_s%d_r%d' % (n, t, s, rot), 'crypto', 'zzC06_stateless', [n, t, s, rot]))
        enough = [s for s in sets if bin(s).count('1') >= t + 1]
        for s1, s2 in itertools.combinations(enough, 2):
            if thorough or (s1 == enough[0] or s2 == enough[-1]):
                cases.append(Case('subsets_n%d_t%d_%d_%d' % (n, t, s1, s2), 'crypto', 'zzC06_subsets', [n, t, s1, s2]))
    for n, t in [(3, 1), (4, 2)]:
        full = (1 << n) - 1
        for bad in range(4):
            for tr in (True, False):
                cases.append(Case('stateful_n%d_t%d_b%d_%d' % (n, t, bad, tr), 'crypto', 'zzC06_stateful', [n, t, full, bad, tr]))
        cases.append(Case('stateful_n%d_t%d_few' % (n, t), 'crypto', 'zzC06_stateful', [n, t, (1 << t) - 1, 0, True]))
    for n, t in ([(3, 1), (4, 2)] + ([(5, 2), (5, 3)] if thorough else [])):
        cases.append(Case('stateful_mixed_n%d_t%d' % (n, t), 'crypto', 'zzC06_stateful_mixed', [n, t]))
    FC = {'formal_coeffs': True}
    # Lagrange limb batching: 9 and 17 signers cross the 8-indices-per-limb boundaries
    cases.append(Case('stateless_9signers', 'crypto', 'zzC06_stateless', [10, 8, (1 << 9) - 1, 0], opts=FC))
    if thorough:
        cases.append(Case('stateless_17signers', 'crypto', 'zzC06_stateless', [18, 16, (1 << 17) - 1, 3], opts=FC))
        cases.append(Case('stateless_9signers_high', 'crypto', 'zzC06_stateless', [12, 8, 0b111111111000, 2], opts=FC))
        cases.append(Case('stateless_9signers_symbolic_coeffs', 'crypto', 'zzC06_stateless', [10, 8, (1 << 9) - 1, 0]))
    # limb lemma: symbolic signer indices (any values 1..254, relative order fixed per case) through the real batching code
    for (deg, pat) in ([(8, 0), (8, 1), (8, 7), (9, 2), (16, 0), (16, 5)] + ([(8, k) for k in range(8, 16)] + [(15, 3), (16, 1), (17, 4), (24, 0), (24, 9)] if thorough else [])):
        cases.append(Case('limb_lemma_deg%d_p%d' % (deg, pat), 'crypto', 'zzC06_limbLemma', [deg, pat]))
    cases.sort(key=lambda c: -(c.args[0] if c.args else 0))
    return run_check('C06', cases, tier, seed, setup=SETUP, timeout_ms=600000 if thorough else 120000,
        functions=['BLSThresholdKeyGen', 'generateFrPolynomial', 'BLSReconstructThresholdSignature', 'blsThresholdSignatureInspector methods', 'EnoughShares',
                   'C:Fr_polynomial_image', 'C:E1_lagrange_interpolate_at_zero_write', 'C:E1_lagrange_interpolate_at_zero', 'C:Fr_lagrange_coeff_at_zero', 'C:E1_multi_scalar', 'C:G2_mult_gen'],
        bounds={'configurations': str(cfgs) + ' plus 9 (and 17, thorough) signers for the limb batching of the Lagrange coefficients',
                'limb lemma': 'Lagrange coefficient code on t+1 = 9, 10, 17 (thorough: up to 25) fully symbolic signer indices in 1..254 whose relative order is fixed per case (ascending, descending, seeded permutations -- a stated sample of order patterns): no 64-bit limb product wraps around (implementation-independent), and for the pinned batching structure every limb factor is x_j resp. |x_j - x_i| and the sign is the parity of the smaller indices',
                'signer sets': 'every subset of size t, t+1, t+2 (t+2 only for n <= 3 in the quick tier), two rotations; pairs of sets for byte equality',
                'polynomial': 'coefficients are symbolic field elements (a_0, a_t non-zero); zero key shares (probability 1/r) are excluded by an assumption; for the 9- and 17-signer cases the coefficients are formal indeterminates (generic values)',
                'outside': 'n up to 254 in general; the derivation of the coefficients from the seed (SHA3, ChaCha20, map_bytes_to_Fr); BLST pippenger and modular inverse (contracts)'},
        assumptions=ASSUME + ['no key share and not the group key is zero (1/r events)'], trusted=galg.TRUSTED + stubs_hash.TRUSTED,
        explanation='symbolic execution of key generation (Horner in F_r from LLVM IR), share signing, and Lagrange interpolation at 0 (real limb-batched coefficient code on concrete signer indices, multi-scalar multiplication contract) with exact polynomials: the reconstructed discrete log normalises to a_0*h for every signer set')
