# C01: BLS Verify accepts exactly sk*H(m) (DESIGN 6.1)
from symex.checklib import Case, run_check
from symex import galg, stubs_hash

FUNCS = ['(*prKeyBLSBLS12381).Sign', '(*pubKeyBLSBLS12381).Verify', 'checkBLSHasher', 'computePublicKey', 'C:bls_sign', 'C:bls_verify', 'C:bls_verify_E1',
         'C:map_to_G1', 'C:map_96_bytes_to_Fp', 'C:E1_mult', 'C:pow256_from_Fr', 'C:G2_mult_gen_to_affine', 'C:Fp12_multi_pairing', 'C:Fp12_is_one', 'C:E1_in_G1']
SETUP = 'symex.setup_c:with_galg'
ASSUME = ['random-oracle abstraction of hash-to-curve: equal (u0,u1) give equal points, different ones give points with different, non-zero discrete logs',
          'collision resistance of the stream hashes (equal 16-byte digest prefixes imply equal inputs) and of the 64-byte-to-field reduction on the values seen',
          'C05 contract for E1/E2 read/write (canonical encodings)']

def run(tier, seed):
    thorough = tier == 'thorough'
    cases = []
    for ml in ((0, 1, 3, 17, 200) if thorough else (0, 3)):
        cases.append(Case('sign_verify_m%d' % ml, 'crypto', 'zzC01_sign_verify', [ml]))
        for tor in (False, True):
            cases.append(Case('candidates_m%d_t%d' % (ml, tor), 'crypto', 'zzC01_candidates', [ml, tor]))
    for n in (list(range(0, 201)) if thorough else [0, 1, 47, 48, 49, 96, 200]):
        cases.append(Case('raw_%d' % n, 'crypto', 'zzC01_raw', [n]))
    for w in range(8):
        cases.append(Case('other_%d' % w, 'crypto', 'zzC01_other', [w]))
    # a caller-supplied hasher with arbitrary 128-byte outputs, consecutive calls (no state carried between calls)
    cases.append(Case('arbhasher', 'crypto', 'zzC01_arbhasher', [], opts={'h2c_fork': True}))
    for extra in (-48, -1, 0, 1, 2, 48, 152):
        cases.append(Case('appended_%d' % extra, 'crypto', 'zzC01_appended', [extra & ((1 << 64) - 1)]))
    # signature parsing inside verification is the real E1_read_bytes: its canonical-decoding obligation
    # (the interface the algebraic model assumes) is re-checked here on the LLVM IR of the real function
    cases.append(Case('E1_read_bytes_canonical_48', 'crypto', 'zzC05_E1_canonical', [48], opts={'setup': 'symex.setup_c:with_c'}))
    return run_check('C01', cases, tier, seed, setup=SETUP, functions=FUNCS, timeout_ms=240000,
        bounds={'keys': 'private key = one symbolic generator in [1, r-1]', 'messages': 'lengths %s, contents symbolic (hashing is an uninterpreted stream function)' % ('0,1,3,17,200' if thorough else '0,3'),
                'candidates': 'a*H(m) + b*g1 (+ a point with a component outside G1) with a, b symbolic in Z_r (every point of E1 has this form); raw symbolic strings of lengths %s' % ('0..200' if thorough else '0,1,47,48,49,96,200'),
                'hashers': 'the KMAC128-based hashers (stream model) and a caller-supplied hasher with arbitrary 128-byte outputs whose 64-byte halves are below p: Sign then two Verify calls, the verdict of each call depends on that call\'s hasher output only',
                'outside': 'BLST curve / pairing / SSWU internals (contracts), cryptographic hardness'},
        assumptions=ASSUME, trusted=galg.TRUSTED + stubs_hash.TRUSTED,
        explanation='bounded symbolic execution of Sign/Verify through cgo into the LLVM IR of bls_core.c and bls12381_utils.c with the algebraic group model at the BLST boundary; verdicts become polynomial congruences that z3 decides')
