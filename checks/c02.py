# C02: aggregate verification equals the pairing-product definition (DESIGN 6.2)
from symex.checklib import Case, run_check
from symex import galg, stubs_hash
from checks.c01 import SETUP, ASSUME

def rgs(n):
    """restricted growth strings of length n (all set partitions), as base-n integers with digit i = class of position i"""
    out = []
    def rec(prefix, mx):
        if len(prefix) == n:
            out.append(sum(d * n ** i for i, d in enumerate(prefix)))
            return
        for d in range(mx + 2):
            rec(prefix + [d], max(mx, d))
    rec([0], 0)
    return out

def run(tier, seed):
    thorough = tier == 'thorough'
    opts = {'map_order_all': True, 'coord_axioms': True}
    cases = [Case('errors', 'crypto', 'zzC02_errors', [], opts=opts), Case('cancel', 'crypto', 'zzC02_cancel', [], opts=opts)]
    for n in ((1, 2, 3, 4) if thorough else (1, 2, 3)):
        pats = rgs(n)
        for kp in pats:
            for mp in pats:
                if n >= 3 and not thorough and not (kp in (pats[0], pats[-1]) and mp in (pats[0], pats[-1], pats[2])):
                    continue
                if n == 4 and not (kp in pats[::3] and mp in pats[::4]):
                    continue
                for tt in ((False, True) if n <= 2 else (False,)):
                    cases.append(Case('many_n%d_k%d_m%d_t%d' % (n, kp, mp, tt), 'crypto', 'zzC02_many', [n, kp, mp, tt], opts=opts))
    # key objects obtained by aggregation + removal (points not in affine form) at some positions: both groupings
    # (one derived key per call: with two, symbolic verdicts for keys that cancel did not replay natively -- an imprecision of
    # the group model for sums of not-affine elements -- so those combinations are not registered)
    for (n, kp, mp, mask) in [(2, 1, 0, 1), (2, 1, 0, 2), (2, 0, 1, 1), (3, 5, 0, 2), (3, 0, 5, 4)] + ([(3, 5, 1, 1), (3, 5, 0, 4), (4, 27, 0, 2)] if thorough else []):
        cases.append(Case('derived_n%d_k%d_m%d_d%d' % (n, kp, mp, mask), 'crypto', 'zzC02_many_derived', [n, kp, mp, mask], opts=opts))
    # one key signing m distinct messages: one group of m hashes on the per-distinct-key path, m pairs > the
    # multi-pairing batch of 8 on the other (no map-order forks: a single key)
    for m in ((9, 17) if thorough else (9,)):
        cases.append(Case('wide_onekey_m%d' % m, 'crypto', 'zzC02_wide', [m, 0], opts={}))
    cases.sort(key=lambda c: -(c.args[0] if c.args else 0))
    return run_check('C02', cases, tier, seed, setup=SETUP, timeout_ms=600000,
        functions=['VerifyBLSSignatureManyMessages', 'VerifyBLSSignatureOneMessage', 'AggregateBLSPublicKeys', 'C:bls_verifyPerDistinctMessage', 'C:bls_verifyPerDistinctKey', 'C:E2_sum_vector', 'C:E1_sum_vector', 'C:Fp12_multi_pairing', 'C:map_to_G1'],
        bounds={'n': 'n <= %d triples; every assignment pattern of keys and of messages to positions (set partitions; a subset of the 25 pattern pairs for n = 3 in the quick tier), equal points in distinct key objects, one or two hashers' % (4 if thorough else 3),
                'maps': 'every iteration order of the Go map that is ranged over (the engine forks over all orders); which C path runs follows from the pattern',
                'key objects': 'fresh from the private key; in the derived_* cases obtained by AggregateBLSPublicKeys + RemoveBLSPublicKeys (same point, not in affine form)',
                'candidates': 'honest aggregate + delta*g1 with symbolic delta; cancelling keys; identity key; error cases',
                'wide': 'one key with 9 (thorough: 17) distinct messages, crossing the batch-of-8 boundaries', 'outside': 'n > 4 in general (a defect that needs more than 17 entries in one group, e.g. a batch of 64, is outside the bound: seeded change C02_d is missed); BLST internals'},
        assumptions=ASSUME + ['distinct message ids give distinct messages (first byte)'], trusted=galg.TRUSTED + stubs_hash.TRUSTED,
        explanation='symbolic execution of the Go grouping code (two maps, flattening) and of both C verification paths including their offset bookkeeping and malloc/free, with exact polynomial discrete logs; memory safety of the C offsets is checked on all paths')
