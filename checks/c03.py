# C03: batch verification agrees index by index with individual verification (DESIGN 6.3)
import itertools
from symex.checklib import Case, run_check
from symex import galg, stubs_hash
from checks.c01 import SETUP, ASSUME

def run(tier, seed):
    thorough = tier == 'thorough'
    cases = [Case('errors', 'crypto', 'zzC03_errors', [])]
    def enc(ks):
        return sum(k * 16 ** i for i, k in enumerate(ks))
    seen = set()
    def add(ks):
        if tuple(ks) in seen:
            return
        seen.add(tuple(ks))
        cases.append(Case('batch_' + ''.join('%x' % k for k in ks), 'crypto', 'zzC03_batch', [len(ks), enc(ks)]))
    nmax = 5 if thorough else 4
    for n in range(1, nmax + 1):
        # every subset of invalid positions with the "independent error" kind
        for bits in itertools.product((0, 1), repeat=n):
            if n <= 3 or thorough or sum(bits) <= 2:
                add(list(bits))
        # every kind at every position among valid entries
        for pos in range(n):
            for k in (2, 3, 4, 5, 8, 9, 10):
                ks = [0] * n
                ks[pos] = k
                add(ks)
        # a special kind (non-G1, malformed, short, too long with a valid prefix, identity key) next to an in-G1 invalid entry: the top-down
        # search descends to the special leaf (its subtree is invalid), which must keep its pre-marked verdict
        for i, j in itertools.permutations(range(n), 2):
            for k in ((2, 3, 4, 5, 8, 9, 10) if (thorough or n <= 3) else (3, 8, 10)):
                ks = [0] * n
                ks[i], ks[j] = 1, k
                add(ks)
        if n >= 3:
            ks = [1] * n
            ks[n - 1] = 3
            add(ks)
        # correlated errors that cancel in a sum: every pair of positions
        for i, j in itertools.combinations(range(n), 2):
            ks = [0] * n
            ks[i], ks[j] = 6, 7
            add(ks)
            if n >= 3:
                ks2 = list(ks)
                other = [p for p in range(n) if p not in (i, j)][0]
                ks2[other] = 1
                add(ks2)
    cases.sort(key=lambda c: -(c.args[0] if c.args else 0))
    return run_check('C03', cases, tier, seed, setup=SETUP, timeout_ms=600000,
        functions=['BatchVerifyBLSSignaturesOneMessage', 'C:bls_batch_verify', 'C:build_tree', 'C:bls_batch_verify_tree', 'C:free_tree', 'C:bls_verify_E1', 'C:E1_mult', 'C:E2_mult', 'C:Fr_add', 'C:limbs_from_be_bytes'],
        bounds={'n': 'n <= %d signatures: every subset of invalid positions (independent errors d_i*g1), every other invalidity kind at every position, every cancelling pair (+D, -D) alone and next to an independent error' % nmax,
                'randomness': 'the 128-bit seeds are symbolic; the coefficients rho_i = seed_i + 1 are formal indeterminates: the verdict is required for every rho outside the exceptional set where a non-zero combination sum rho_i*d_i vanishes (a union of proper hyperplanes; its measure, about 2^-128 per node, is arithmetic outside the solver)',
                'outside': 'quality of crypto/rand; larger n (tree shapes beyond %d leaves)' % nmax},
        assumptions=ASSUME + ['genericity of the random coefficients (see bounds)'], trusted=galg.TRUSTED + stubs_hash.TRUSTED,
        explanation='symbolic execution of the Go pre-marking / merge code and of the C aggregation tree (malloc, recursion, top-down isolation) with exact polynomial discrete logs; each node verdict is a polynomial congruence in the error terms and the formal coefficients')
