# C05: canonical, validating serialisation (DESIGN 6.5)
from symex.checklib import Case, run_check
from symex import cstubs, stubs_big, stubs_ecdsa

FUNCS = ['(*crypto.ecdsaAlgo).rawDecodePrivateKey', '(*crypto.ecdsaAlgo).rawDecodePublicKey', '(*crypto.ecdsaAlgo).decodePublicKeyCompressed', '(*crypto.pubKeyECDSA).rawEncode', '(*crypto.pubKeyECDSA).EncodeCompressed', '(*crypto.prKeyECDSA).rawEncode', 'C:E1_read_bytes', 'C:E1_write_bytes', 'C:E2_read_bytes', 'C:E2_write_bytes', 'C:Fp_read_bytes', 'C:Fp2_read_bytes',
         'C:Fr_read_bytes', 'C:Fr_star_read_bytes', 'C:Fr_write_bytes', 'crypto.readPointE1', 'crypto.readPointE2',
         '(*crypto.blsBLS12381Algo).decodePublicKey', '(*crypto.blsBLS12381Algo).decodePrivateKey']

def run(tier, seed):
    thorough = tier == 'thorough'
    cases = []
    lens = list(range(0, 201)) if thorough else [0, 1, 2, 31, 32, 33, 47, 48, 49, 64, 95, 96, 97, 100, 192, 200]
    for n in lens:
        if n >= 1:
            cases.append(Case('E1_canonical_%d' % n, 'crypto', 'zzC05_E1_canonical', [n], expect_reach=True))
            cases.append(Case('E2_canonical_%d' % n, 'crypto', 'zzC05_E2_canonical', [n]))
        cases.append(Case('BLS_pubkey_%d' % n, 'crypto', 'zzC05_BLS_pubkey', [n, False]))
        cases.append(Case('BLS_privkey_%d' % n, 'crypto', 'zzC05_BLS_privkey', [n]))
    cases.append(Case('zcash_g2', 'crypto', 'zzC05_zcash_g2', []))
    cases.append(Case('BLS_pubkey_compressedAPI_96', 'crypto', 'zzC05_BLS_pubkey', [96, True]))
    # BLS signature parsing inside verification: a signature with trailing / missing bytes is not accepted
    for extra in (-1, 1, 48):
        cases.append(Case('BLS_sig_appended_%d' % extra, 'crypto', 'zzC01_appended', [extra & ((1 << 64) - 1)], opts={'setup': 'symex.setup_c:with_galg'}))
    # unused high bits of the second G2 coordinate (p has 381 bits): flipping one in an accepted encoding must give a refusal
    cases.append(Case('BLS_pubkey_highbits_48', 'crypto', 'zzC05_highbits', [48]))
    # aggregation of a list whose entry lengths compensate each other (the bytes of valid signatures cut elsewhere)
    for (n, c1, c2) in [(2, 47, -1), (2, 49, -1), (2, 0, -1), (2, 96, -1), (2, 48, -1), (3, 1, 49), (3, 48, 95), (3, 47, 97)]:
        cases.append(Case('BLS_agg_reframed_%d_%d_%d' % (n, c1, c2 & 0xff), 'crypto', 'zzC05_agg_reframed', [n, c1, c2 & ((1 << 64) - 1)], opts={'setup': 'symex.setup_c:with_galg'}))
    # ECDSA decoders (both curves): private scalars, raw and compressed public keys
    blens = set([32, 31, 30, 16, 2, 1, 0]) if thorough else set([32, 31, 1])
    EO = {'big_len_set': blens}
    elens = list(range(0, 101)) if thorough else [0, 1, 31, 32, 33, 34, 63, 64, 65, 66, 96]
    for algo in (0, 1):
        for n in elens:
            cases.append(Case('ECDSA_privkey_a%d_%d' % (algo, n), 'crypto', 'zzC05_ecdsa_private', [algo, n], opts=EO))
            cases.append(Case('ECDSA_pubkey_a%d_%d' % (algo, n), 'crypto', 'zzC05_ecdsa_public', [algo, n, False], opts=EO))
            cases.append(Case('ECDSA_pubkey_compressed_a%d_%d' % (algo, n), 'crypto', 'zzC05_ecdsa_public', [algo, n, True], opts=EO))
    cases.sort(key=lambda c: -(bool(c.args) and (c.args[0] in (48, 96, 32) or (len(c.args) > 1 and c.args[1] in (32, 33, 64)))))
    return run_check('C05', cases, tier, seed, setup='symex.setup_c:with_c',
        functions=FUNCS,
        bounds={'content': 'every byte of the input symbolic (all 2^384 / 2^768 / 2^256 strings of the exact lengths at once)',
                'lengths': 'other lengths %s' % ('0..200' if thorough else str(lens)),
                'ecdsa': 'both curves; all byte strings of lengths %s as private key, raw public key and compressed public key; minimal byte lengths of big integers explored: %s' % ('0..100' if thorough else str(elens), sorted(blens)),
                'outside': 'BLST field multiplication / square root / subgroup check (uninterpreted, see trusted base); P-256 / secp256k1 on-curve test, decompression and public-key derivation (uninterpreted, with the contract listed in the trusted base)'},
        assumptions=['neither E1 nor E2 has a point with y = 0 (odd group orders); square roots returned by sqrt_fp/sqrt_fp2 are reduced',
                     'sign of -y is the opposite of the sign of y for y != 0 (field fact, added as axiom instances)',
                     'ECDSA curves: decompress(parity(y), x) = y for reduced on-curve (x, y) (field fact, instantiated for the on-curve terms of the path); reference on-curve predicate natively = the curve equation computed with math/big'],
        trusted=cstubs.TRUSTED_A + stubs_big.TRUSTED + stubs_ecdsa.TRUSTED,
        explanation='symbolic execution of the Go decoders through the cgo boundary into the LLVM IR of the repository C glue (read/write of Fr, Fp, Fp2, E1, E2) on field-primitive contracts; assertions: accept => re-encode equals input, accepted scalar set = [1, r-1] against a schoolbook reference, identity flag iff infinity encoding, rejection class; ECDSA decoders on a big.Int model: accepted private keys = 32 bytes in [1, n-1], accepted raw public keys = 64 bytes, reduced, on curve, compressed = 33 bytes with prefix 02/03 and reduced x, re-encoding equals input, compressed/raw forms decode to Equal keys')
