# C05: canonical, validating serialisation (DESIGN 6.5)
from symex.checklib import Case, run_check
from symex import cstubs, stubs_big

FUNCS = ['C:E1_read_bytes', 'C:E1_write_bytes', 'C:E2_read_bytes', 'C:E2_write_bytes', 'C:Fp_read_bytes', 'C:Fp2_read_bytes',
         'C:Fr_read_bytes', 'C:Fr_star_read_bytes', 'C:Fr_write_bytes', 'crypto.readPointE1', 'crypto.readPointE2',
         '(*crypto.blsBLS12381Algo).decodePublicKey', '(*crypto.blsBLS12381Algo).decodePrivateKey']

def run(tier, seed):
    thorough = tier == 'thorough'
    cases = []
    lens = list(range(0, 201)) if thorough else [0, 1, 2, 31, 32, 33, 47, 48, 49, 64, 95, 96, 97, 100, 192, 200]
    for n in lens:
        if n >= 1:
            cases.append(Case('E1_canonical_%d' % n, 'crypto', 'zzC05_E1_canonical', [n], expect_reach=True))
            cases.append(Case('E2_canonical_%d' % n, 'crypto', 'zzC05_E2_canonical', [n]))
        cases.append(Case('BLS_pubkey_%d' % n, 'crypto', 'zzC05_BLS_pubkey', [n, False]))
        cases.append(Case('BLS_privkey_%d' % n, 'crypto', 'zzC05_BLS_privkey', [n]))
    cases.append(Case('BLS_pubkey_compressedAPI_96', 'crypto', 'zzC05_BLS_pubkey', [96, True]))
    # BLS signature parsing inside verification: a signature with trailing / missing bytes is not accepted
    for extra in (-1, 1, 48):
        cases.append(Case('BLS_sig_appended_%d' % extra, 'crypto', 'zzC01_appended', [extra & ((1 << 64) - 1)], opts={'setup': 'symex.setup_c:with_galg'}))
    cases.sort(key=lambda c: -(c.args[0] in (48, 96, 32)))
    return run_check('C05', cases, tier, seed, setup='symex.setup_c:with_c',
        functions=FUNCS,
        bounds={'content': 'every byte of the input symbolic (all 2^384 / 2^768 / 2^256 strings of the exact lengths at once)',
                'lengths': 'other lengths %s' % ('0..200' if thorough else str(lens)),
                'outside': 'BLST field multiplication / square root / subgroup check (uninterpreted, see trusted base); ECDSA decoders are covered separately'},
        assumptions=['neither E1 nor E2 has a point with y = 0 (odd group orders); square roots returned by sqrt_fp/sqrt_fp2 are reduced',
                     'sign of -y is the opposite of the sign of y for y != 0 (field fact, added as axiom instances)'],
        trusted=cstubs.TRUSTED_A + stubs_big.TRUSTED,
        explanation='symbolic execution of the Go decoders through the cgo boundary into the LLVM IR of the repository C glue (read/write of Fr, Fp, Fp2, E1, E2) on field-primitive contracts; assertions: accept => re-encode equals input, accepted scalar set = [1, r-1] against a schoolbook reference, identity flag iff infinity encoding, rejection class')
