# C18: the stateful threshold-signature object is linearizable (DESIGN 6.18)
import re
from symex.checklib import Case, run_check
from symex import driver, galg, stubs_hash

def instrument(src):
    """bls_thresholdsign.go with the lock's type replaced by the scheduler-aware mutex of the harness prims
    (regenerated from the working tree on every run; every other line is the repository's)"""
    out, n = re.subn(r'(\block\s+)sync\.RWMutex', r'\1verifRWMutex', src)
    if n == 0:
        out, n = re.subn(r'(\block\s+)sync\.Mutex', r'\1verifRWMutex', src)
    if n:
        out += '\nvar _ sync.RWMutex // keeps the import used in the instrumented copy\n'
    return out

def op(kind, idx=0, share=0):
    return kind * 100 + (idx + 1) * 10 + share

TA, VA, HS, ES, TS, VS = range(6)

def run(tier, seed):
    thorough = tier == 'thorough'
    driver.EXTRA_OVERLAYS['bls_thresholdsign.go'] = instrument
    S = {'setup': 'symex.setup_c:with_galg', 'formal_coeffs': True}
    cfgs = []
    def add(name, pre, a, b, c=-1):
        a = list(a) + [-1] * (2 - len(a)); b = list(b) + [-1] * (2 - len(b))
        cfgs.append((name, [pre, a[0], a[1], b[0], b[1], c]))
    # two adders racing for the last slot, readers in between
    add('add_add_same_signer', -1, [op(VA, 0, 0)], [op(TA, 0, 0)])
    add('add_add_last_slot', op(TA, 2, 2), [op(VA, 0, 0)], [op(TA, 1, 1)])
    add('add_then_sig__add', op(TA, 2, 2), [op(VA, 0, 0), op(TS)], [op(TA, 1, 1)])
    add('add_enough__add_enough', -1, [op(VA, 0, 0), op(ES)], [op(VA, 1, 1), op(ES)])
    add('sig__sig_after_enough', op(TA, 2, 2), [op(TA, 0, 0), op(TS)], [op(TS)])
    add('bad_share_trusted__sig', op(TA, 2, 2), [op(TA, 0, 3), op(TS)], [op(TS)])
    add('has__add', -1, [op(HS, 0)], [op(VA, 0, 0), op(HS, 0)])
    add('invalid_index__add', -1, [op(TA, 3, 0), op(VA, -1, 0)], [op(VA, 1, 1)])
    add('verifyshare__add', -1, [op(VS, 0, 0), op(VS, 0, 1)], [op(TA, 0, 0)])
    if thorough:
        add('three_adders', -1, [op(VA, 0, 0)], [op(TA, 1, 1)], op(VA, 2, 2))
        add('three_sig', op(TA, 2, 2), [op(TA, 0, 0)], [op(TS)], op(TS))
        add('add_add__add_sig', -1, [op(VA, 0, 0), op(TA, 2, 2)], [op(TA, 1, 1), op(TS)])
        add('wrong_len__sig', op(TA, 2, 2), [op(TA, 0, 4), op(TS)], [op(ES), op(TS)])
        add('dup__dup', op(TA, 0, 0), [op(TA, 0, 0), op(HS, 0)], [op(VA, 0, 0), op(ES)])
    cases = [Case(name, 'crypto', 'zzC18_lin', args, opts=dict(S)) for name, args in cfgs]
    return run_check('C18', cases, tier, seed, replay_flags='-race',
        functions=['(*crypto.blsThresholdSignatureInspector).TrustedAdd', 'VerifyAndAdd', 'HasShare', 'EnoughShares', 'VerifyShare', 'VerifyThresholdSignature', 'ThresholdSignature',
                   'reconstructThresholdSignature', 'enoughShares', 'hasShare', 'validIndex', 'NewBLSThresholdSignatureInspector'],
        bounds={'threads and calls': '2 logical threads with up to 2 calls each%s on one shared object (n = 3, t = 1), optionally after one sequential call; the scenarios are listed in the cases' % (' and 3 threads with one call each' if thorough else ''),
                'schedules': 'every interleaving at the visible points: each mutex operation, and each access to the share map / cached signature made without holding the lock (such accesses are also reported as events); code between visible points touches only thread-local or immutable data',
                'oracle': 'for every explored schedule the tuple of results (booleans, error class, signature class) must equal the tuple of some sequential order of the same calls on a fresh object that respects program order and the observed real-time order (call A precedes call B when A returned before B was invoked)',
                'outside': 'more threads / calls than listed; the Go memory model below sequential consistency (every shared access of the unchanged code is made under the lock); the real scheduler'},
        assumptions=['sync.RWMutex is a reader/writer lock automaton (Lock blocks unless free, RLock blocks on a writer)', 'Verify inside VerifyAndAdd is the algebraic model of C01 (a pure function)',
                     'native replay: the scheduling choices of the model drive a cooperative scheduler at the mutex operations of an instrumented copy of bls_thresholdsign.go (lock type replaced, nothing else), followed by free-running goroutines under the race detector'],
        trusted=galg.TRUSTED + stubs_hash.TRUSTED,
        explanation='bounded model checking of thread interleavings by symbolic execution of the real methods with a scheduler whose choices are symbolic tape values; z3 decides the feasibility of every branch and the linearizability assertion written in the harness')
