# C17: SPoCK verification (DESIGN 6.17)
from symex.checklib import Case, run_check
from symex import galg, stubs_hash
from checks.c01 import SETUP, ASSUME

def run(tier, seed):
    cases = []
    for t1 in (False, True):
        for t2 in (False, True):
            cases.append(Case('relation_%d%d' % (t1, t2), 'crypto', 'zzC17_relation', [t1, t2]))
    cases.append(Case('cancelling_torsion', 'crypto', 'zzC17_cancelling_torsion', []))
    for w in range(7):
        cases.append(Case('honest_%d' % w, 'crypto', 'zzC17_honest', [w]))
    return run_check('C17', cases, tier, seed, setup=SETUP, timeout_ms=240000,
        functions=['SPOCKProve', 'SPOCKVerifyAgainstData', 'SPOCKVerify', 'C:bls_spock_verify', 'C:E2_neg', 'C:Fp12_multi_pairing', 'C:E1_in_G1'],
        bounds={'keys': 'two (three) private keys as symbolic generators in [1, r-1]', 'proofs': 'c1*g1, c2*g1 with symbolic c1, c2 (every G1 element), each optionally plus a cofactor-torsion point; honest proofs; raw symbolic 48-byte strings; wrong lengths; identity keys; non-BLS keys',
                'outside': 'BLST internals, hash-to-curve internals'},
        assumptions=ASSUME, trusted=galg.TRUSTED + stubs_hash.TRUSTED,
        explanation='symbolic execution of spock.go and bls_spock_verify with the algebraic group model; the verdict is compared with the polynomial relation c1*sk2 = c2*sk1 computed by the library field multiplication')
