# C12: key generation is a fixed, in-range, deterministic function of the seed (DESIGN 6.12)
import time
from symex.checklib import Case, run_check, merge_evidence
from symex import stubs_big, stubs_ecdsa, galg, stubs_hash

GB = 'symex.setup_c:with_galg_bytes'

def run(tier, seed):
    thorough = tier == 'thorough'
    t0 = time.time()
    slens = list(range(0, 301)) if thorough else [0, 1, 31, 32, 33, 47, 48, 49, 64, 100, 255, 256, 257, 300]
    blens = set([32, 31, 30, 16, 2, 1, 0]) if thorough else set([32, 31, 1])
    cases = []
    for n in slens:
        cases.append(Case('bls_seed_%d' % n, 'crypto', 'zzC12_bls', [n], opts={'setup': GB}))
        for algo in (0, 1):
            cases.append(Case('ecdsa_a%d_seed_%d' % (algo, n), 'crypto', 'zzC12_ecdsa', [algo, n], opts={'big_len_set': blens}))
    for n in ([32, 33, 64, 256] if thorough else [32, 256]):
        cases.append(Case('bls_retry_seed_%d' % n, 'crypto', 'zzC12_bls', [n], opts={'setup': GB, 'force_first_zero': True, 'symbolic_only': True}))
    for mode in range(4):
        cases.append(Case('aggregated_mode%d' % mode, 'crypto', 'zzC12_aggregated', [mode], opts={'setup': GB}))
    cases.append(Case('concurrent_bls', 'crypto', 'zzC12_concurrent', [0], opts={'setup': GB}))
    for a in (1, 2):
        cases.append(Case('concurrent_ecdsa_a%d' % (a - 1), 'crypto', 'zzC12_concurrent', [a], opts={'big_len_set': blens}))
    mlens = list(range(1, 101)) if thorough else [1, 2, 16, 31, 32, 33, 47, 48, 49, 63, 64, 65, 96]
    for n in mlens:
        cases.append(Case('mapToFr_%d' % n, 'crypto', 'zzC12_mapToFr', [n], opts={'setup': GB}))
    cases.sort(key=lambda c: 0 if c.fn == 'zzC12_concurrent' else 1)      # (their counterexamples are the ones that replay natively)
    rc = run_check('C12', cases, tier, seed, setup='symex.setup_c:with_c', replay_flags='-race', evidence_name='C12_main',
        functions=['crypto.GeneratePrivateKey', '(*crypto.blsBLS12381Algo).generatePrivateKey', 'crypto.mapToFr', 'C:map_bytes_to_Fr', 'C:Fr_from_be_bytes (chunking loop, limbs_from_be_bytes executed)',
                   '(*crypto.ecdsaAlgo).generatePrivateKey', 'crypto.goecdsaMapKey', 'crypto.goecdsaPrivateKey', '(*crypto.prKeyBLSBLS12381).PublicKey', '(*crypto.prKeyECDSA).PublicKey'],
        bounds={'seed lengths': '0..300' if thorough else str(slens), 'seed contents': 'every byte symbolic',
                'mapToFr lemma': 'input lengths %s, every byte symbolic: result = OS2IP(bytes) mod r as exact linear forms over Z_r' % ('1..100' if thorough else str(mlens)),
                'retry loop': 'HKDF outputs are formal (generic) bytes, so the zero branch is not taken on its own; it is entered by a hypothetical forced-zero first attempt (symbolic only, cannot be replayed natively), at most 3 attempts per path',
                'big-endian lengths': 'minimal byte lengths of d, X, Y explored for ECDSA: %s' % sorted(blens),
                'outside': 'HKDF / SHA-256 internals (uninterpreted functions of exactly the argument bytes), scalar multiplication by the generator (algebraic model for BLS, uninterpreted derivation for ECDSA)'},
        assumptions=['crypto/hkdf.Key is a function of (secret, salt, info, length); SHA-256 is a function of the absorbed bytes',
                     'bytes produced by HKDF are formal indeterminates in the polynomial domain (a linear form in them vanishes iff all its coefficients vanish)',
                     'minimal byte lengths of big integers restricted to the listed set (ECDSA cases)'],
        trusted=stubs_big.TRUSTED + stubs_ecdsa.TRUSTED + galg.TRUSTED[:2] + galg.TRUSTED[4:] + stubs_hash.TRUSTED[1:],
        explanation='bounded symbolic execution of the key-generation glue (go/ssa) through cgo into map_bytes_to_Fr (LLVM IR): the five HKDF arguments equal the documented ones (salt = SHA-256 of the ASCII string, IKM||00, info 00 30, L = 48; empty salt/info for ECDSA), the BLS key is OS2IP(okm) mod r (exact linear forms; Montgomery constants folded by the encoder), the ECDSA key is OS2IP(okm) mod (n-1) + 1, out-of-range seed lengths give invalid-input errors, regeneration and decoding give Equal keys and public keys, PublicKey() is cached')
    # lazily computed public key under concurrent first calls: logical threads (every interleaving of the accesses to
    # the cached-key field, sequentially consistent memory). Replayed natively WITHOUT the race detector: the
    # unsynchronised publication of a complete key is a data race in Go's sense also on the unchanged code, which
    # the property (values returned) does not speak about; what is required is that every call returns scalar*g2.
    pc = [Case('pk_concurrent_%d' % k, 'crypto', 'zzC12_pk_concurrent', [k], opts={'setup': GB}) for k in (0, 1, 2)]
    rc |= run_check('C12', pc, tier, seed, setup=GB, evidence_name='C12_pk',
        functions=['(*crypto.prKeyBLSBLS12381).PublicKey', '(*crypto.prKeyBLSBLS12381).computePublicKey'],
        bounds={'threads': 'two goroutines making the first PublicKey() call on one private key object (constructed, decoded, aggregated); every interleaving of the accesses to the cached-key field; sequentially consistent memory',
                'outside': 'weak-memory effects of the unsynchronised publication (a Go data race also on the unchanged code: reported by the race detector, not a statement of C12); more than two goroutines'},
        assumptions=['sequentially consistent memory'], trusted=galg.TRUSTED[:2],
        explanation='logical threads in the symbolic executor: each access to the cached public-key field is a scheduling point; z3 decides for all scalars that both calls and later calls return the encoding of scalar*g2')
    merge_evidence('C12', ['C12_main', 'C12_pk'], tier, seed, t0)
    return 1 if rc else 0
