# C07: DKG honest participants agree on verdict and keys (DESIGN 6.7; scope: one Qual instance, two honest participants)
import itertools
from symex.checklib import Case, run_check
from checks import dkgcommon
from symex import galg
M = (1 << 64) - 1

def run(tier, seed):
    thorough = tier == 'thorough'
    cases = []
    vks = (-1, 0, 1, 3, 4, 6) if thorough else (-1, 0, 3, 6)
    sks = (-1, 0, 1, 2, 4) if thorough else (-1, 0, 1, 2)
    orders = (0, 1, 2, 3)
    aks = (0, 1, 2, 3) if thorough else (0, 1, 2)
    for vk, s1, s2, o, a1, a2 in itertools.product(vks, sks, sks, orders, aks, aks):
        if not thorough and o in (1, 2) and (a1 or a2):
            continue
        cases.append(Case('agree_v%d_s%d_%d_o%d_a%d_%d' % (vk, s1, s2, o, a1, a2), 'crypto', 'zzDKG_qual_agreement', [vk & M, s1 & M, s2 & M, o, a1, a2]))
    # unsolicited (early) complaint answers naming participant 1, broadcast in round 1 before the shares
    # (order bit k set: participant k+1 receives its share before the vector)
    for vk, s1, s2, a1, ek, o in itertools.product((0, 6), (-1, 0, 1, 2), (0,), (0, 1, 2), (1, 2, 3), (0, 1, 3, 4, 5)):
        cases.append(Case('early_v%d_s%d_%d_a%d_e%d_o%d' % (vk, s1, s2, a1, ek, o), 'crypto', 'zzDKG_qual_agreement_early', [vk & M, s1 & M, s2 & M, o, a1, 0, ek]))
    # Joint-Feldman: two honest participants with different interleavings across senders agree on the qualified dealers
    for oa, ob in ((0, 1), (1, 2), (2, 0), (0, 0)):
        for nh in ((1, 2, 3) if thorough else (2,)):
            for ans in (False, True):
                cases.append(Case('jf_agree_o%d%d_h%d_a%d' % (oa, ob, nh, int(ans)), 'crypto', 'zzC07_jf_agree', [oa, ob, nh, ans]))
    cases += dkgcommon.lemma_cases(thorough, Case)
    return run_check('C07', cases, tier, seed, setup=dkgcommon.SETUP,
        functions=['C:G2_vector_read_bytes', 'C:E2_vector_write_bytes', 'C:Fr_polynomial_image_write', 'C:E2_polynomial_images', 'C:G2_check_log', 'feldmanVSSQualState handlers, timeouts and End, run as a product of two honest participants of one dealer instance'],
        bounds={'configuration': 'n=4, t=1, Byzantine dealer 0, honest participants 1 and 2',
                'grammar': 'vector kinds %s, private share kinds %s per participant, all four (share/vector) delivery orders, dealer answers %s per complainer; honest complaints are the ones the executed code emits and are routed to the other participant' % (vks, sks, aks),
                'Joint-Feldman': 'n=5, t=2: two honest participants (3 and 4) observe a Byzantine participant that is disqualified as a dealer and complains against another dealer, with different interleavings across senders: same set of disqualified dealers',
                'lemmas': dkgcommon.LEMMA_BOUND,
                'outside': 'Joint-Feldman key summation itself (linear in the per-dealer data), n > 5, more Byzantine messages per round, the polynomial algebra of shares beyond the contract lemmas, network assumptions'},
        assumptions=dkgcommon.ASSUME, trusted=dkgcommon.TRUSTED + galg.TRUSTED,
        explanation='relational bounded symbolic execution: the real code of two honest participants is run side by side on the same broadcasts; assertions: same error class from End, same group key and public-share vector on success, nobody honest is flagged or disqualified')
