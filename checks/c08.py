# C08: DKG qualification is fair (DESIGN 6.8)
import itertools
from symex.checklib import Case, run_check
from checks import dkgcommon
from symex import galg

def run(tier, seed):
    thorough = tier == 'thorough'
    cases = []
    for vk, sk, sf in itertools.product(range(9), range(10), (False, True)):
        cases.append(Case('fvss_v%d_s%d_%d' % (vk, sk, sf), 'crypto', 'zzDKG_fvss_orders', [vk, sk, sf, False, False]))
    for vk, sk in ((0, 0), (1, 0), (3, 9), (0, 2)):
        for sf, dv, ds in itertools.product((False, True), repeat=3):
            if dv or ds:
                cases.append(Case('fvss_dup_v%d_s%d_%d%d%d' % (vk, sk, sf, dv, ds), 'crypto', 'zzDKG_fvss_orders', [vk, sk, sf, dv, ds]))
    vks = [-1] + list(range(9))
    sks = [-1] + list(range(10))
    for vk, sk, sf in itertools.product(vks, sks, (False, True)):
        for ak in ((0, 1) if not thorough else range(6)):
            cases.append(Case('qual_v%d_s%d_%d_a%d' % (vk, sk, sf, ak), 'crypto', 'zzDKG_qual_participant', [vk & ((1 << 64) - 1), sk & ((1 << 64) - 1), sf, ak, False, 0]))
    for vk, sk, sf, ak, oc, oak in itertools.product((0, 6), (-1, 0, 1, 2), (False, True), range(6), (False, True), range(6)):
        if thorough or (sf or sk == 2):
            cases.append(Case('qual2_v%d_s%d_%d_a%d_o%d_oa%d' % (vk, sk, sf, ak, oc, oak), 'crypto', 'zzDKG_qual_participant', [vk, sk & ((1 << 64) - 1), sf, ak, oc, oak]))
    # unsolicited (early) complaint answers in round 1, before the share and the vector
    for vk, sk, sf, ak, ek in itertools.product((0, 6), (-1, 0, 1, 2, 4), (False, True), (0, 1, 2), range(1, 6)):
        cases.append(Case('early_v%d_s%d_%d_a%d_e%d' % (vk, sk, sf, ak, ek), 'crypto', 'zzDKG_qual_participant_early', [vk, sk & ((1 << 64) - 1), sf, ak, False, 0, ek]))
    for c1, c2, dup in itertools.product(range(0, 5), range(0, 5), (False, True)):
        cases.append(Case('dealer_%d_%d_%d' % (c1, c2, dup), 'crypto', 'zzDKG_qual_dealer', [c1, c2, dup]))
    # Joint-Feldman observer: complaints against one dealer from a participant that is itself disqualified as a dealer
    for order in (0, 1, 2):
        for nh in ((1, 2) if thorough else (2,)):      # (complainers 2, 3; participant 4 is the observer itself: its own messages are not delivered to it)
            for ans in (False, True):
                cases.append(Case('jf_complaints_o%d_h%d_a%d' % (order, nh, int(ans)), 'crypto', 'zzC08_jf_complaints', [order, nh, ans]))
    for mask in ((0, 1, 2, 4, 3, 7) if not thorough else range(8)):
        cases.append(Case('jf_answer_first_%d' % mask, 'crypto', 'zzC08_jf_answer_first', [mask]))
    cases += dkgcommon.lemma_cases(thorough, Case)
    return run_check('C08', cases, tier, seed, setup=dkgcommon.SETUP,
        functions=['C:G2_vector_read_bytes', 'C:E2_vector_write_bytes', 'C:Fr_polynomial_image_write', 'C:E2_polynomial_images', 'C:G2_check_log', '(*feldmanVSSstate).receiveShare/receiveVerifVector/End', '(*feldmanVSSQualState).receiveShare/receiveVerifVector/receiveComplaint/receiveComplaintAnswer/setSharesTimeout/setComplaintsTimeout/buildAndBroadcastComplaint/End', 'C:Fr_star_read_bytes'],
        bounds={'plain Feldman VSS': 'n=3, t=1, non-dealer participant; every vector kind (9) x share kind (10) x both delivery orders, duplicates of either message',
                'Feldman-VSS-Qual participant': 'n=4, t=2; vector kinds {omitted, 9 kinds} x share kinds {omitted, 10 kinds} x both orders; dealer answers (6 kinds) to this participant and to another complainer; honest complaint from another participant',
                'Joint-Feldman observer': 'n=5, t=2: a Byzantine participant disqualified as a dealer (bad vector first / last / none) complains, with 2 honest participants, against another dealer who answers only the honest ones',
                'dealer role': 'complaints from every pair of (in/out of range) origins, duplicates',
                'lemmas': dkgcommon.LEMMA_BOUND,
                'outside': 'larger n, t; more than two complainers; the algebra behind "share matches vector" beyond the contract lemmas (honest-dealing axioms listed); network assumptions'},
        assumptions=dkgcommon.ASSUME, trusted=dkgcommon.TRUSTED + galg.TRUSTED,
        explanation='bounded symbolic execution of the real DKG handlers over a message grammar; message contents are symbolic bytes constrained only by the kind (valid / malformed / inconsistent), parse and check verdicts are uninterpreted functions of the bytes; assertions: honest never blamed, complaint built at most once, dealer answers each first complaint once, disqualification rules, plain-VSS keys only for a valid vector with matching share, no panic')
